"""C18 - SINEX editing (gnss.py). The module cannot be imported in the test environment (pandas); it is only parsed."""
import ast
import re
from ..model import AnalysisError, stmt_text, calls_in, Func
from ..resolve import Resolver
from ..rules import where
from ..mutate import replace_in_function, substitute, text_variant

META = {
    'level': 'other',
    'rule_text': 'rule instances: every out.write of the three editing functions classified by the line state it is issued in (typestate '
                 'START / MID over a statement-level walk with loop fixed points); every format specification that builds a fixed-width header '
                 'field; every rewrite of a fixed-column line (splice X[:a] + E + X[b:]: width of E against b - a, (a, b) against the SINEX header '
                 'fields; global str.replace); every clock read reachable from the editing functions and the midnight reference of the SSSSS field; '
                 'every column slice of the estimate and site readers against the SINEX 2.02 layout; the element order and stride of the four '
                 'branches (L/U x with/without velocities) of the matrix reader; R-INDEX: every index expression of the triangular-matrix code '
                 '(record parse, sub-matrix extraction per layout, re-blocking, full-matrix fill and mirror, row/column deletion, triangle writers, '
                 'zero-line test, reader fill) as an exact affine form against the form the record layout demands; header parameter-count '
                 'arithmetic; record-class and L/U-flag columns; agreement of the estimate tuple layout between its producer and its consumer',
    'explanation': 'Static: a typestate analysis of the output stream (does each record start at the beginning of a line, does the file end with a '
                   'newline) with interprocedural string-shape summaries of the block readers; format-specification, slice and string-width checks '
                   'read from the syntax tree; call-graph reachability for clock reads; affine index extraction for all loops over the triangular '
                   'matrix: position p of a stored row r is column first(r) + p with first = 1 (lower) / r (upper), a row holds r / N - r + 1 '
                   'values, a record holds up to three values starting at PARA2, parameter p sits at 0-based index p - 1 minus the number already '
                   'deleted. This is the only way to look at gnss.py at all here (it cannot be imported). It decides well-formedness of the written '
                   'lines, fixed-width header stamps independent of the time of day, reader column/element agreement, and that every index used by '
                   'the editors is the one the layout requires (necessary conditions for "exactly the remaining rows and columns"); it does not '
                   'prove the loops as a whole (no loop invariant over the runtime dictionaries is established) and assumes well-formed input blocks.',
}

START, MID, UNK = 'START', 'MID', 'UNKNOWN'
NL, NONL, EMPTY, ANY = 'ends-with-newline', 'no-newline', 'empty', 'unknown'
EDITORS = ('remove_stns_sinex', 'remove_velocity_sinex', 'remove_matrixzeros_sinex')


# ------------------------------------------------------------------------------------------------ string shapes
class Shapes(object):
    """abstract string shapes of expressions inside one function, with summaries of the module's reader functions"""

    def __init__(self, repo, module):
        self.repo = repo
        self.m = module
        self.fsum = {}
        for f in module.functions.values():
            self.fsum[f.name] = self.summarise(f)

    def summarise(self, f):
        """('str', shape) | ('list', element shape) | None from the function's return statements"""
        rets = [n for n in ast.walk(f.node) if isinstance(n, ast.Return) and n.value is not None]
        if len(rets) != 1 or not isinstance(rets[0].value, ast.Name):
            return None
        name = rets[0].value.id
        env = {}
        appended = []
        assigned = []

        def scan(stmts):
            for st in stmts:
                if isinstance(st, ast.Assign):
                    shp = self.shape(st.value, env, f)
                    for t in st.targets:
                        if isinstance(t, ast.Name):
                            env[t.id] = shp
                            if t.id == name and not (isinstance(st.value, ast.List) and not st.value.elts):
                                assigned.append(shp)
                elif isinstance(st, ast.Expr) and isinstance(st.value, ast.Call) and isinstance(st.value.func, ast.Attribute) \
                        and st.value.func.attr in ('append', 'insert') and isinstance(st.value.func.value, ast.Name) and st.value.func.value.id == name:
                    appended.append(self.shape(st.value.args[-1], env, f))
                for fld in ('body', 'orelse', 'finalbody'):
                    sub = getattr(st, fld, None)
                    if isinstance(sub, list) and sub and isinstance(sub[0], ast.stmt):
                        if isinstance(st, ast.For):
                            it = self.shape(st.iter, env, f)
                            if isinstance(st.target, ast.Name):
                                env[st.target.id] = it[1] if isinstance(it, tuple) and it[0] == 'list' else ANY
                        scan(sub)
        scan(f.node.body)
        if appended:
            shapes = set(appended)
            if shapes == {NONL}:
                return ('list', NONL)
            if shapes == {NL}:
                return ('list', NL)
            return ('list', ANY)
        if assigned:
            if len(set(assigned)) == 1 and not isinstance(assigned[0], tuple):
                return ('str', assigned[0])
        return None

    def shape(self, e, env, f=None):
        if isinstance(e, ast.Constant) and isinstance(e.value, str):
            if e.value == '':
                return EMPTY
            return NL if e.value.endswith('\n') else NONL
        if isinstance(e, ast.JoinedStr):
            if not e.values:
                return EMPTY
            last = e.values[-1]
            if isinstance(last, ast.Constant):
                return NL if str(last.value).endswith('\n') else NONL
            if isinstance(last, ast.FormattedValue):
                if last.format_spec is not None:
                    return NONL      # a formatted number / padded field
                return self.shape(last.value, env, f)
            return ANY
        if isinstance(e, ast.BinOp) and isinstance(e.op, ast.Add):
            r = self.shape(e.right, env, f)
            if r == EMPTY:
                return self.shape(e.left, env, f)
            return r
        if isinstance(e, ast.Name):
            return env.get(e.id, ANY)
        if isinstance(e, ast.Subscript):
            base = self.shape(e.value, env, f)
            if isinstance(base, tuple) and base[0] == 'list':
                if isinstance(e.slice, ast.Slice):
                    return base
                return base[1]
            if base in (NL, NONL):
                # a slice that runs to the end keeps the ending; anything else drops a possible newline
                if isinstance(e.slice, ast.Slice) and e.slice.upper is None:
                    return base
                return NONL
            return ANY
        if isinstance(e, ast.Call):
            fn = e.func
            if isinstance(fn, ast.Attribute):
                if fn.attr in ('strip', 'rstrip'):
                    return NONL
                if fn.attr in ('lstrip', 'upper', 'lower', 'ljust', 'rjust', 'zfill'):
                    return self.shape(fn.value, env, f)
                if fn.attr == 'replace':
                    recv = self.shape(fn.value, env, f)
                    new = self.shape(e.args[1], env, f) if len(e.args) > 1 else ANY
                    if recv in (NL, NONL) and new in (NONL, EMPTY):
                        return recv
                    return ANY
                if fn.attr == 'format':
                    return self.shape(fn.value, env, f) if isinstance(fn.value, ast.Constant) else ANY
                if fn.attr in ('readline',):
                    return NL
                if fn.attr in ('split',):
                    return ('list', NONL)
                if fn.attr == 'join':
                    return NONL
            if isinstance(fn, ast.Name):
                if fn.id == 'str':
                    return NONL
                s = self.fsum.get(fn.id)
                if s is not None:
                    return s if s[0] == 'list' else s[1]
            return ANY
        if isinstance(e, ast.IfExp):
            a, b = self.shape(e.body, env, f), self.shape(e.orelse, env, f)
            return a if a == b else ANY
        return ANY


def is_record_start(e, env):
    """does the written string begin a new record (as opposed to continuing the current line)?"""
    first = e
    while True:
        if isinstance(first, ast.BinOp) and isinstance(first.op, ast.Add):
            first = first.left
        elif isinstance(first, ast.JoinedStr) and first.values:
            v = first.values[0]
            if isinstance(v, ast.FormattedValue):
                if v.format_spec is not None:
                    spec = ''.join(str(c.value) for c in v.format_spec.values if isinstance(c, ast.Constant))
                    return not re.search(r'[eEfF]$', spec)      # a bare number continues a matrix line
                first = v.value
            else:
                first = v
        else:
            break
    if isinstance(first, ast.Constant) and isinstance(first.value, str):
        s = first.value
        if s.strip() == '':
            # ' ' + index ...  starts a record; a lone ' \n' terminates one
            return e is not first and not (isinstance(e, ast.Constant))
        return True
    return True       # a variable holding a line


# ------------------------------------------------------------------------------------------------ typestate walk
class Walker(object):
    def __init__(self, shapes, func, rep):
        self.sh = shapes
        self.f = func
        self.rep = rep
        self.events = []      # (node, state before, shape, record_start)
        self.out = None

    def merge(self, a, b):
        if a is None:
            return b
        if b is None:
            return a
        return frozenset(a) | frozenset(b)

    def run(self):
        env = {}
        self.ends = []
        st = self.block(self.f.node.body, frozenset([START]), env, record=True)
        if st is not None:
            self.ends.append(st)
        res = None
        for e in self.ends:
            res = self.merge(res, e)
        return res

    def block(self, stmts, state, env, record):
        for s in stmts:
            state = self.stmt(s, state, env, record)
            if state is None:
                return None
        return state

    def bind(self, target, shape, env):
        if isinstance(target, ast.Name):
            env[target.id] = shape
        elif isinstance(target, (ast.Tuple, ast.List)):
            for t in target.elts:
                self.bind(t, ANY, env)

    def stmt(self, s, state, env, record):
        if isinstance(s, ast.With):
            for it in s.items:
                if isinstance(it.context_expr, ast.Call) and getattr(it.context_expr.func, 'id', '') == 'open' and it.optional_vars is not None \
                        and len(it.context_expr.args) > 1 and isinstance(it.context_expr.args[1], ast.Constant) and 'w' in str(it.context_expr.args[1].value):
                    self.out = it.optional_vars.id
            return self.block(s.body, state, env, record)
        if isinstance(s, ast.Assign):
            shp = self.sh.shape(s.value, env, self.f)
            for t in s.targets:
                self.bind(t, shp, env)
            return state
        if isinstance(s, ast.AugAssign):
            if isinstance(s.target, ast.Name) and isinstance(s.op, ast.Add):
                r = self.sh.shape(s.value, env, self.f)
                if r in (NL, NONL):
                    env[s.target.id] = r
                elif r != EMPTY and env.get(s.target.id) in (NL, NONL, EMPTY):
                    # number += 1 etc. leave non-string variables alone
                    if not isinstance(s.value, (ast.Constant,)) or isinstance(s.value.value, str):
                        env[s.target.id] = ANY
            return state
        if isinstance(s, ast.Expr):
            c = s.value
            if isinstance(c, ast.Call) and isinstance(c.func, ast.Attribute) and c.func.attr == 'write' \
                    and isinstance(c.func.value, ast.Name) and c.func.value.id == self.out and c.args:
                shp = self.sh.shape(c.args[0], env, self.f)
                rs = is_record_start(c.args[0], env)
                if record:
                    for i, ev_ in enumerate(self.events):
                        if ev_[0] is c:
                            self.events[i] = (c, self.merge(ev_[1], state), shp, rs)
                            break
                    else:
                        self.events.append((c, state, shp, rs))
                if shp == NL:
                    return frozenset([START])
                if shp == NONL:
                    return frozenset([MID])
                if shp == EMPTY:
                    return state
                return frozenset([UNK])
            if isinstance(c, ast.Call) and getattr(c.func, 'id', '') == 'exit':
                return None
            return state
        if isinstance(s, ast.If):
            e1, e2 = dict(env), dict(env)
            a = self.block(s.body, state, e1, record)
            b = self.block(s.orelse, state, e2, record)
            for k in set(e1) | set(e2):
                env[k] = e1.get(k) if e1.get(k) == e2.get(k) else (e1.get(k, e2.get(k)) if (k not in e1 or k not in e2) else ANY)
            return self.merge(a, b)
        if isinstance(s, (ast.For, ast.While)):
            if isinstance(s, ast.For):
                it = self.sh.shape(s.iter, env, self.f)
                self.bind(s.target, it[1] if isinstance(it, tuple) and it[0] == 'list' else ANY, env)
            head = state
            for _ in range(5):
                e1 = dict(env)
                end = self.loop_body(s.body, head, e1)
                new = self.merge(head, end)
                if new == head:
                    break
                head = new
            # final recording pass with the stable head state
            self.loop_body(s.body, head, env, record=record)
            return head if not s.orelse else self.block(s.orelse, head, env, record)
        if isinstance(s, ast.Return):
            self.ends.append(state)
            return None
        if isinstance(s, ast.Raise):
            return None
        if isinstance(s, ast.Try):
            return self.block(s.body, state, env, record)
        return state

    def loop_body(self, body, head, env, record=False):
        """state at the end of one iteration; continue statements flow to the loop head"""
        self._cont = []
        st = self.block_c(body, head, env, record)
        for c in self._cont:
            st = self.merge(st, c)
        return st

    def block_c(self, stmts, state, env, record):
        for s in stmts:
            if isinstance(s, ast.Continue):
                self._cont.append(state)
                return None
            if isinstance(s, ast.Break):
                return state
            if isinstance(s, ast.If):
                e1, e2 = dict(env), dict(env)
                a = self.block_c(s.body, state, e1, record)
                b = self.block_c(s.orelse, state, e2, record)
                for k in set(e1) | set(e2):
                    if e1.get(k) == e2.get(k):
                        env[k] = e1.get(k)
                    else:
                        env[k] = ANY if (k in e1 and k in e2) else e1.get(k, e2.get(k))
                state = self.merge(a, b)
                if a is None and b is None:
                    return None
                continue
            state = self.stmt(s, state, env, record)
            if state is None:
                return None
        return state


def typestate_rules(repo, rep, m):
    sh = Shapes(repo, m)
    total = 0
    for name in EDITORS:
        f = m.functions.get(name)
        if f is None:
            raise AnalysisError('anchor vanished: gnss.%s' % name)
        rep.analysed(f)
        wk = Walker(sh, f, rep)
        end = wk.run()
        seen = {}
        for call, state, shp, rs in wk.events:
            total += 1
            txt = stmt_text(call)
            seen[txt] = seen.get(txt, 0) + 1
            key = 'R-TYPESTATE::geodepy/gnss.py::%s::%s#%d' % (name, txt[:70], seen[txt])
            w = where(f, call)
            if shp == ANY:
                rep.undecided('R-TYPESTATE', key, w, 'cannot tell whether the written string ends with a newline')
            elif rs and MID in state:
                rep.violated('R-TYPESTATE', key, w, 'a new record is written while the previous one is not terminated: the two are glued on one line',
                             expected='the stream is at the beginning of a line when a record starts', actual='previous write left the line open; this write: %s' % txt[:100])
            elif rs and UNK in state:
                rep.undecided('R-TYPESTATE', key, w, 'line state before this record is not known on every path')
            else:
                rep.holds('R-TYPESTATE', key, w, '%s in state %s' % ('record start' if rs else 'continuation', '/'.join(sorted(state))))
        key = 'R-TYPESTATE::geodepy/gnss.py::%s::<end>' % name
        if end == frozenset([START]):
            rep.holds('R-TYPESTATE', key, where(f, f.node), 'the file ends with a terminated line')
        elif end is not None and MID in end:
            rep.violated('R-TYPESTATE', key, where(f, f.node), 'the last line written is not terminated on some path')
        else:
            rep.undecided('R-TYPESTATE', key, where(f, f.node), 'final line state unknown')
        # every way out of the editor passes the trailer: a `return` met before the %ENDSNX write leaves a truncated (or no) output file
        trailer = [n for n in ast.walk(f.node) if isinstance(n, ast.Call) and isinstance(n.func, ast.Attribute) and n.func.attr == 'write'
                   and any(isinstance(c, ast.Constant) and isinstance(c.value, str) and '%ENDSNX' in c.value for c in ast.walk(n))]
        key = 'R-TYPESTATE::geodepy/gnss.py::%s::<exits>' % name
        if not trailer:
            rep.violated('R-TYPESTATE', key, where(f, f.node), '%s never writes the %%ENDSNX trailer' % name, expected="out.write('%ENDSNX\\n')", actual='absent')
        else:
            last = max(t.lineno for t in trailer)
            nested = set()
            for n in ast.walk(f.node):
                if isinstance(n, (ast.FunctionDef, ast.Lambda)) and n is not f.node:
                    nested.update(id(x) for x in ast.walk(n))
            early = [n for n in ast.walk(f.node) if isinstance(n, ast.Return) and id(n) not in nested and n.lineno < last]
            if early:
                rep.violated('R-TYPESTATE', key, where(f, early[0]), '%s can return at line %d, before the %%ENDSNX trailer (line %d) is written: on that path the output file is '
                             'truncated or empty - removing nothing still has to write the complete file' % (name, early[0].lineno, last),
                             expected='every exit after the trailer write', actual=stmt_text(early[0])[:60])
            else:
                rep.holds('R-TYPESTATE', key, where(f, trailer[-1]), 'no return precedes the %ENDSNX trailer write')
    # the block readers and editors read the file every time: a memoised reader (functools cache keyed by the file NAME) returns the old
    # content after the file has been rewritten - the content is an input that is not in the key
    memo = []
    for name, f in sorted(m.functions.items()):
        decs = [d for d in f.node.decorator_list if any(isinstance(x, (ast.Name, ast.Attribute)) and (getattr(x, 'id', None) or getattr(x, 'attr', None)) in ('lru_cache', 'cache', 'cached', 'memoize')
                                                         for x in ast.walk(d))]
        if decs and any(isinstance(n, ast.Call) and getattr(n.func, 'id', '') == 'open' for n in ast.walk(f.node)):
            memo.append((f, decs[0]))
    key = 'R-PURE::geodepy/gnss.py::readers::memo'
    if memo:
        for f, d in memo:
            rep.violated('R-PURE', key + '::' + f.name, where(f, d), '%s reads a file and is memoised (`@%s`) by its arguments - the file name: after the file is rewritten (the editors do exactly that) '
                         'the reader keeps returning the old content' % (f.name, stmt_text(d)[:40]), expected='no cache, or a key that includes the content', actual='@' + stmt_text(d)[:60])
    else:
        rep.holds('R-PURE', key, '%s:1' % m.relpath, 'no file-reading function of gnss.py is memoised by file name')
    rep.floor('R-TYPESTATE', 40, 'writes of the three editing functions')


# ------------------------------------------------------------------------------------------------ formats
def format_specs(f):
    """(spec string, node) of every format specification in the function (str.format templates and f-strings)"""
    out = []
    for n in ast.walk(f.node):
        if isinstance(n, ast.Call) and isinstance(n.func, ast.Attribute) and n.func.attr == 'format' and isinstance(n.func.value, ast.Constant) \
                and isinstance(n.func.value.value, str):
            for mm in re.finditer(r'\{[^{}:]*(?::([^{}]*))?\}', n.func.value.value):
                out.append((mm.group(1) or '', n))
        if isinstance(n, ast.FormattedValue):
            spec = ''
            if n.format_spec is not None:
                spec = ''.join(str(c.value) for c in n.format_spec.values if isinstance(c, ast.Constant))
            elif isinstance(n.value, ast.Name):
                # `{year}` without a specification: a name bound to a piece of TEXT of fixed length (str(x)[2:], an earlier '{:03d}'.format)
                # is inserted as it is - its width was decided where it was made
                defs = [st.value for st in ast.walk(f.node) if isinstance(st, ast.Assign) and len(st.targets) == 1 and isinstance(st.targets[0], ast.Name)
                        and st.targets[0].id == n.value.id]
                if defs and all((isinstance(d_, ast.Subscript) and isinstance(d_.value, ast.Call) and getattr(d_.value.func, 'id', '') == 'str')
                                or (isinstance(d_, ast.Call) and isinstance(d_.func, ast.Attribute) and d_.func.attr in ('format', 'strftime', 'zfill')) for d_ in defs):
                    continue
            out.append((spec, n))
        if isinstance(n, ast.Call) and isinstance(n.func, ast.Attribute) and n.func.attr == 'strftime' and len(n.args) == 1 and isinstance(n.args[0], ast.Constant) \
                and isinstance(n.args[0].value, str):
            from .c18x import STRFTIME_WIDTH
            for d_ in re.findall(r'%(.)', n.args[0].value):
                # a strftime directive is a zero-filled field of fixed width (or not a fixed-width field at all)
                out.append(('0%dd' % STRFTIME_WIDTH[d_] if d_ in STRFTIME_WIDTH else 'strftime %' + d_, n))
    return out


FIXED = re.compile(r'^0\d+(\.\d+)?[dfF]$|^\d+(\.\d+)?[dDsS]?$|^0\d+$')


def format_rules(repo, rep, m):
    f = m.functions.get('set_creation_time')
    if f is None:
        raise AnalysisError('anchor vanished: gnss.set_creation_time')
    rep.analysed(f)
    n = 0
    for spec, node in format_specs(f):
        n += 1
        key = 'R-FORMAT::geodepy/gnss.py::set_creation_time::{:%s}#%d' % (spec, n)
        if re.match(r'^0\d+(\.0)?[df]$', spec):
            rep.holds('R-FORMAT', key, where(f, node), 'zero-filled fixed width: {:%s}' % spec)
        else:
            rep.violated('R-FORMAT', key, where(f, node), 'a field of the YY:DDD:SSSSS stamp is formatted with {:%s}: no fixed zero-filled width, so the header line changes '
                         'length with the time of day (seconds since midnight have 1 to 5 digits)' % spec, expected='{:05.0f} / {:03d}', actual='{:%s}' % spec)
    if n < 2:
        rep.undecided('R-FORMAT', 'R-FORMAT::geodepy/gnss.py::set_creation_time::specs', where(f, f.node), 'fewer than two format specifications found')
    # the seconds of the day run from 00000 to 86399: total_seconds() carries microseconds, and a format that ROUNDS ({:05.0f}) writes 86400
    # during the last half second of the day (and every stamp of a second half-second one second late); the value must be truncated
    key = 'R-FORMAT::geodepy/gnss.py::set_creation_time::seconds-truncated'
    hit = None
    for node in ast.walk(f.node):
        if isinstance(node, ast.Call) and isinstance(node.func, ast.Attribute) and node.func.attr == 'format' and isinstance(node.func.value, ast.Constant) \
                and isinstance(node.func.value.value, str) and re.search(r'\{:0?\d*\.0f\}', node.func.value.value) and node.args:
            a0 = node.args[0]
            # resolve a plain name to its last assignment before this statement
            if isinstance(a0, ast.Name):
                defs = [st.value for st in ast.walk(f.node) if isinstance(st, ast.Assign) and len(st.targets) == 1 and isinstance(st.targets[0], ast.Name)
                        and st.targets[0].id == a0.id and st.lineno < node.lineno]
                a0 = defs[-1] if defs else a0
            truncated = isinstance(a0, ast.Call) and (getattr(a0.func, 'id', '') in ('int', 'floor') or getattr(a0.func, 'attr', '') in ('floor', 'trunc'))
            fractional = any(isinstance(c, ast.Attribute) and c.attr == 'total_seconds' for c in ast.walk(a0))
            if fractional and not truncated:
                hit = node
    if hit is not None:
        rep.violated('R-FORMAT', key, where(f, hit), 'the seconds of the day are written with a rounding format (`%s`) from total_seconds(), which carries microseconds: at 23:59:59.6 the stamp '
                     'reads YY:DDD:86400 - not a time of day (00000..86399)' % stmt_text(hit)[:50], expected="'{:05d}'.format(int(seconds))", actual=stmt_text(hit)[:60])
    else:
        rep.holds('R-FORMAT', key, where(f, f.node), 'the seconds of the day are not rounded up (truncated, or whole seconds)')
    # header rewriting in the editors
    for name in EDITORS:
        g = m.functions[name]
        k = 0
        for node in ast.walk(g.node):
            if isinstance(node, ast.Call) and isinstance(node.func, ast.Attribute) and node.func.attr == 'replace' \
                    and isinstance(node.func.value, ast.Name) and 'header' in node.func.value.id:
                k += 1
                key = 'R-FORMAT::geodepy/gnss.py::%s::header.replace#%d' % (name, k)
                rep.violated('R-FORMAT', key, where(g, node), 'the fixed-column header line is rewritten with str.replace(%s): every occurrence of the old text anywhere in the line is replaced '
                             '(and the new text may have another width)' % ', '.join(stmt_text(a)[:30] for a in node.args),
                             expected='splice by column: header[:a] + new + header[b:]', actual=stmt_text(node)[:120])
        if k == 0:
            rep.holds('R-FORMAT', 'R-FORMAT::geodepy/gnss.py::%s::header-rewrite' % name, where(g, g.node), 'no global str.replace on the header line')
    # renumbering and re-blocking formats
    for name in ('remove_stns_sinex', 'remove_velocity_sinex'):
        g = m.functions[name]
        specs = [s for s, nd in format_specs(g)]
        key = 'R-FORMAT::geodepy/gnss.py::%s::renumber' % name
        if '5d' in specs:
            rep.holds('R-FORMAT', key, where(g, g.node), 'estimate and matrix indices are written with {:5d}')
        else:
            rep.violated('R-FORMAT', key, where(g, g.node), 'no {:5d} index format found', expected='{:5d}', actual=str(sorted(set(specs))))
        key = 'R-FORMAT::geodepy/gnss.py::%s::matrix-value' % name
        if any(s.lower() == '21.14e' for s in specs):
            rep.holds('R-FORMAT', key, where(g, g.node), 'matrix elements are written with 21.14e')
        else:
            rep.violated('R-FORMAT', key, where(g, g.node), 'matrix elements are not written with 21.14e', expected='21.14e', actual=str(sorted(set(specs))))
    # the estimate index is spliced over columns 0-5
    g = m.functions['remove_stns_sinex']
    ok = any(isinstance(n, ast.Assign) and stmt_text(n.value).replace('"', "'") == "' ' + number + line[6:]" for n in ast.walk(g.node))
    key = 'R-FORMAT::geodepy/gnss.py::remove_stns_sinex::index-splice'
    if ok:
        rep.holds('R-FORMAT', key, where(g, g.node), 'the renumbered index replaces columns 0-5 by position')
    else:
        rep.undecided('R-FORMAT', key, where(g, g.node), 'index splice not of the form " " + number + line[6:]')


def clock_rules(repo, rep, m):
    rs = Resolver(repo)
    # functions reachable from the editors
    seen = {}
    todo = [m.functions[n] for n in EDITORS]
    while todo:
        f = todo.pop()
        if f.qualname in seen:
            continue
        seen[f.qualname] = f
        for c in calls_in(f.node):
            t = rs.callee(f, c)
            if isinstance(t, Func) and t.module is m:
                todo.append(t)
    n = 0
    for q, f in sorted(seen.items()):
        for c in calls_in(f.node):
            txt = stmt_text(c.func)
            if txt.endswith(('.now', '.today', '.utcnow', 'time.time')):
                n += 1
                key = 'R-CLOCK::geodepy/gnss.py::%s::%s' % (q, txt)
                # how is the reading turned into text?
                fixed = False
                how = ''
                if q == 'set_creation_time':
                    fixed = True
                    how = 'fields formatted separately (see R-FORMAT)'
                else:
                    for u in ast.walk(f.node):
                        if isinstance(u, ast.Call) and isinstance(u.func, ast.Attribute) and u.func.attr == 'strftime' and u.args and isinstance(u.args[0], ast.Constant):
                            spec = u.args[0].value
                            if not re.search(r'%[-#]', spec) and not re.search(r'%[aAbBcpxXZz]', spec):
                                fixed = True
                                how = 'strftime(%r): fixed-width directives only' % spec
                if fixed:
                    rep.holds('R-CLOCK', key, where(f, c), 'clock read reachable from the editors; %s' % how)
                else:
                    rep.violated('R-CLOCK', key, where(f, c), 'a clock read reachable from the editing functions is written with a width that depends on the time')
    # one stamp, one reading: year, day of year and seconds of the day must come from the same instant - two readings that straddle
    # midnight give the old day with the new day's seconds (a stamp 24 h off; across new year 25:365:00000)
    for q, f in sorted(seen.items()):
        reads = [c for c in calls_in(f.node) if stmt_text(c.func).endswith(('.now', '.today', '.utcnow', 'time.time'))]
        if not reads:
            continue
        key = 'R-CLOCK::geodepy/gnss.py::%s::single-reading' % q
        in_loop = any(isinstance(l_, (ast.For, ast.While)) and any(x is c for x in ast.walk(l_)) for c in reads for l_ in ast.walk(f.node))
        if len(reads) == 1 and not in_loop:
            rep.holds('R-CLOCK', key, where(f, reads[0]), 'the clock is read once; every field of the stamp is derived from that reading')
        else:
            rep.violated('R-CLOCK', key, where(f, reads[-1]), '%s reads the clock %d times: the fields of one stamp come from different instants - an edit that straddles midnight writes the '
                         'old day with the new day\'s seconds of day (25:365:00000 at new year)' % (q, len(reads)), expected='one reading', actual='%d readings' % len(reads))
    if n == 0:
        rep.undecided('R-CLOCK', 'R-CLOCK::geodepy/gnss.py::none', 'geodepy/gnss.py:1', 'no clock read found: the creation-time stamp is not updated?')
    # a default value is evaluated ONCE, when the module is imported: a stamp taken there is the time of the import, not of the call
    CLOCK = ('.now', '.today', '.utcnow', 'time.time')
    clocky = set()
    grew = True
    while grew:
        grew = False
        for g in m.all_functions():
            if g.qualname in clocky:
                continue
            for c in calls_in(g.node):
                t = rs.callee(g, c)
                if stmt_text(c.func).endswith(CLOCK) or (isinstance(t, Func) and t.module is m and t.qualname in clocky):
                    clocky.add(g.qualname)
                    grew = True
                    break
    for g in m.all_functions():
        for prm in g.params:
            d = prm.default
            if d is None:
                continue
            for c in [x for x in ast.walk(d) if isinstance(x, ast.Call)]:
                t = rs.callee(g, c)
                if stmt_text(c.func).endswith(CLOCK) or (isinstance(t, Func) and t.qualname in clocky):
                    rep.violated('R-CLOCK', 'R-CLOCK::geodepy/gnss.py::%s::default(%s)' % (g.qualname, prm.name), where(g, d),
                                 'the default of `%s` is `%s`, which reads the clock - and a default is evaluated once, when geodepy.gnss is imported: every later call of %s without the '
                                 'argument stamps the IMPORT time (a session that runs past midnight or new year writes yesterday\'s / last year\'s creation time)'
                                 % (prm.name, stmt_text(d)[:60], g.qualname), expected='%s=None and the reading taken inside the call' % prm.name, actual=stmt_text(d)[:80])


# ------------------------------------------------------------------------------------------------ readers
ESTIMATE_COLS = {'code': (14, 18), 'epoch': (27, 39), 'value': (47, 68), 'sd': (69, 80), 'type': (7, 11), 'vel': (7, 10)}
SITE_COLS = {'site': (1, 5), 'point': (6, 8), 'domes': (9, 18), 'obs': (19, 20), 'station_description': (21, 43), 'lon': (44, 55), 'lat': (56, 67), 'h': (68, 75)}


def line_slices(f, var='line'):
    """{target name or description: [(lo, hi)]} for assignments whose value slices `line`"""
    out = []
    for n in ast.walk(f.node):
        if isinstance(n, ast.Subscript) and isinstance(n.value, ast.Name) and n.value.id == var and isinstance(n.slice, ast.Slice):
            lo = n.slice.lower.value if isinstance(n.slice.lower, ast.Constant) else None
            hi = n.slice.upper.value if isinstance(n.slice.upper, ast.Constant) else None
            out.append((lo, hi, n))
    return out


def assigned_slices(f, var='line'):
    res = {}
    for n in ast.walk(f.node):
        if isinstance(n, ast.Assign) and len(n.targets) == 1 and isinstance(n.targets[0], ast.Name):
            for s in ast.walk(n.value):
                if isinstance(s, ast.Subscript) and isinstance(s.value, ast.Name) and s.value.id == var and isinstance(s.slice, ast.Slice):
                    lo = s.slice.lower.value if isinstance(s.slice.lower, ast.Constant) else None
                    hi = s.slice.upper.value if isinstance(s.slice.upper, ast.Constant) else None
                    res.setdefault(n.targets[0].id, []).append((lo, hi, n))
    return res


def prefix_rules(repo, rep, m):
    """a test  x[a:b] == 'literal'  can only ever be true when b - a == len(literal)"""
    n = 0
    for f in m.functions.values():
        for c in ast.walk(f.node):
            if isinstance(c, ast.Compare) and len(c.ops) == 1 and isinstance(c.ops[0], (ast.Eq, ast.NotEq)) and isinstance(c.left, ast.Subscript) \
                    and isinstance(c.left.slice, ast.Slice) and isinstance(c.comparators[0], ast.Constant) and isinstance(c.comparators[0].value, str):
                sl = c.left.slice
                lo = sl.lower.value if isinstance(sl.lower, ast.Constant) else (0 if sl.lower is None else None)
                hi = sl.upper.value if isinstance(sl.upper, ast.Constant) else None
                if lo is None or hi is None:
                    continue
                n += 1
                lit = c.comparators[0].value
                key = 'R-TABLE::geodepy/gnss.py::%s::%s' % (f.qualname, stmt_text(c)[:50])
                if hi - lo == len(lit):
                    rep.holds('R-TABLE', key, where(f, c), 'slice width %d matches the literal %r' % (hi - lo, lit), work=False)
                else:
                    rep.violated('R-TABLE', key, where(f, c), 'the %d-character slice [%d:%d] is compared with the %d-character literal %r: the test can never succeed' % (
                        hi - lo, lo, hi, len(lit), lit), expected='width %d' % len(lit), actual='width %d' % (hi - lo))
    return n


def reader_rules(repo, rep, m):
    # SOLUTION/ESTIMATE
    f = m.functions.get('read_sinex_estimate')
    rep.analysed(f)
    sl = assigned_slices(f)
    roles = {'code': 'code', 'epoch': 'epoch', 'typ': 'type'}
    for var, lst in sorted(sl.items()):
        role = roles.get(var)
        if role is None:
            if var.endswith('_sd'):
                role = 'sd'
            elif var in ('stax', 'stay', 'staz', 'velx', 'vely', 'velz'):
                role = 'value'
            elif var == 'soln':
                role = 'soln'
            else:
                continue
        for lo, hi, node in lst:
            key = 'R-TABLE::geodepy/gnss.py::read_sinex_estimate::%s[%s:%s]' % (var, lo, hi)
            if role == 'soln':
                if (lo, hi) in ((22, 26), (23, 26)):
                    rep.holds('R-TABLE', key, where(f, node), 'solution number from columns %d-%d of the 4-character field 23-26' % (lo + 1, hi))
                else:
                    rep.violated('R-TABLE', key, where(f, node), 'solution number read from line[%s:%s]; SINEX 2.02 has it in columns 23-26' % (lo, hi), expected='[22:26]', actual='[%s:%s]' % (lo, hi))
                continue
            want = ESTIMATE_COLS[role]
            if (lo, hi) == want:
                rep.holds('R-TABLE', key, where(f, node), '%s from columns %d-%d (SINEX 2.02 SOLUTION/ESTIMATE)' % (var, lo + 1, hi))
            else:
                rep.violated('R-TABLE', key, where(f, node), '%s is read from line[%s:%s]; SINEX 2.02 has the %s field at [%d:%d]' % (var, lo, hi, role, want[0], want[1]),
                             expected='[%d:%d]' % want, actual='[%s:%s]' % (lo, hi))
    # SITE/ID
    f = m.functions.get('read_sinex_sites')
    rep.analysed(f)
    sl = assigned_slices(f)
    for var, want in sorted(SITE_COLS.items()):
        key = 'R-TABLE::geodepy/gnss.py::read_sinex_sites::%s' % var
        if var not in sl:
            rep.undecided('R-TABLE', key, where(f, f.node), 'no slice assigned to %s' % var)
            continue
        lo, hi, node = sl[var][0]
        if (lo, hi) == want:
            rep.holds('R-TABLE', key, where(f, node), '%s from columns %d-%d (SINEX 2.02 SITE/ID)' % (var, lo + 1, hi))
        else:
            rep.violated('R-TABLE', key, where(f, node), '%s is read from line[%s:%s]; the SITE/ID record has this field in columns %d-%d (line[%d:%d])%s' % (
                var, lo, hi, want[0] + 1, want[1], want[0], want[1], ': the last characters of the F7.1 height are cut off' if var == 'h' else ''),
                expected='[%d:%d]' % want, actual='[%s:%s]' % (lo, hi))
    rep.floor('R-TABLE', 18, 'column slices of the estimate and site readers')
    # SOLUTION/MATRIX_ESTIMATE: element order of the L and U branches
    f = m.functions.get('read_sinex_matrix')
    rep.analysed(f)
    tuples = []
    for n in ast.walk(f.node):
        if isinstance(n, ast.Assign) and len(n.targets) == 1 and isinstance(n.targets[0], ast.Name) and n.targets[0].id == 'info' and isinstance(n.value, ast.Tuple):
            tuples.append(n)
    doc_order3 = [(0, 0), (0, 1), (0, 2), (1, 1), (1, 2), (2, 2)]
    want6 = doc_order3 + [(a + 3, b + 3) for a, b in doc_order3]
    from . import c18x
    for n in tuples:
        key = 'R-SIBLING::geodepy/gnss.py::read_sinex_matrix::info@%s' % branch_of(f, n)
        lower = 'lower' in branch_of(f, n)
        elts = n.value.elts[2:]
        want = want6 if len(elts) == 12 else doc_order3
        stride = 6 if len(elts) == 12 else 3
        if len(elts) not in (6, 12):
            rep.violated('R-SIBLING', key, where(f, n), 'the tuple carries %d matrix elements; 6 (positions) or 12 (positions and velocities) are documented' % len(elts))
            continue
        # loop variable of the enclosing for
        loopvar = None
        for lp in ast.walk(f.node):
            if isinstance(lp, ast.For) and any(x is n for x in ast.walk(lp)) and isinstance(lp.target, ast.Name):
                loopvar = lp.target.id
        bad = []
        unknown = []
        pairs = []
        for k, e in enumerate(elts):
            if not (isinstance(e, ast.Subscript) and isinstance(e.value, ast.Subscript)):
                unknown.append(k)
                continue
            if any(isinstance(x, ast.BinOp) and isinstance(x.op, (ast.Div, ast.Pow, ast.Mod)) for x in ast.walk(e)):
                a, b = want[k]
                bad.append((k, {'<%s>' % stmt_text(e.value.slice): 1}, {'<%s>' % stmt_text(e.slice): 1}, c18x.const(a), c18x.const(b)))
                continue
            r, c = c18x.aff(e.value.slice), c18x.aff(e.slice)
            if loopvar is None or set(r) - {'', loopvar} or set(c) - {'', loopvar}:
                unknown.append(k)
                continue
            a, b = want[k]
            ra, ca = (max(a, b), min(a, b)) if lower else (min(a, b), max(a, b))
            wr = c18x.add(c18x.scale(c18x.var(loopvar), stride), c18x.const(ra))
            wc = c18x.add(c18x.scale(c18x.var(loopvar), stride), c18x.const(ca))
            pairs.append((r, c))
            if r != wr or c != wc:
                bad.append((k, r, c, wr, wc))
        names = ['var_x', 'cov_xy', 'cov_xz', 'var_y', 'cov_yz', 'var_z', 'var_vx', 'cov_vxy', 'cov_vxz', 'var_vy', 'cov_vyz', 'var_vz']
        if bad:
            k, r, c, wr, wc = bad[0]
            rep.violated('R-SIBLING', key, where(f, n), 'element %d (%s) of the %s-triangular %s tuple is element[%s][%s]; the documented order, %d parameters per station and the %s '
                         'triangle require element[%s][%s]%s' % (k, names[k], 'lower' if lower else 'upper', 'velocity' if stride == 6 else 'position', c18x.show(r), c18x.show(c),
                                                                stride, 'lower' if lower else 'upper', c18x.show(wr), c18x.show(wc),
                                                                '' if len(bad) == 1 else ' (and %d more)' % (len(bad) - 1)),
                         expected='element[%s][%s]' % (c18x.show(wr), c18x.show(wc)), actual='element[%s][%s]' % (c18x.show(r), c18x.show(c)))
        elif unknown:
            rep.undecided('R-SIBLING', key, where(f, n), 'element indices %s are not affine in the station index' % unknown)
        else:
            rep.holds('R-SIBLING', key, where(f, n), 'elements (var_x, cov_xy, cov_xz, var_y, cov_yz, var_z%s) in the documented order, stride %d, read from the %s triangle' % (
                ', velocities likewise' if len(elts) == 12 else '', stride, 'lower' if lower else 'upper'))
    rep.floor('R-SIBLING', 4, 'four branches of the matrix reader')


def index_pair(e):
    """element[k*i + a][k*i + b] -> (a, b, k)"""
    if not (isinstance(e, ast.Subscript) and isinstance(e.value, ast.Subscript)):
        return None

    def off(x):
        if isinstance(x, ast.BinOp) and isinstance(x.op, ast.Add) and isinstance(x.right, ast.Constant):
            k = off(x.left)
            return (k[0], k[1] + x.right.value) if k else None
        if isinstance(x, ast.BinOp) and isinstance(x.op, ast.Mult):
            for a, b in ((x.left, x.right), (x.right, x.left)):
                if isinstance(a, ast.Constant) and isinstance(b, ast.Name):
                    return (a.value, 0)
        return None
    r, c = off(e.value.slice), off(e.slice)
    if r is None or c is None or r[0] != c[0]:
        return None
    return r[1], c[1], r[0]


def branch_of(f, node):
    """textual description of the if-branches enclosing node"""
    path = []

    def rec(stmts, trail):
        for s in stmts:
            if s is node:
                path.extend(trail)
                return True
            if isinstance(s, ast.If):
                t = stmt_text(s.test)
                if rec(s.body, trail + [t]):
                    return True
                if rec(s.orelse, trail + ['not ' + t]):
                    return True
            elif isinstance(s, (ast.For, ast.While, ast.With)):
                if rec(s.body, trail):
                    return True
        return False
    rec(f.node.body, [])
    vel = 'velocities' if 'velocities' in path else 'positions'
    low = 'lower' if 'lower_triangular' in path else 'upper'
    return '%s/%s' % (vel, low)


def empty_index_rule(repo, rep, m):
    """numpy.array of an EMPTY Python list is a float64 array, and a float array is not an index: `keep[np.array(skip)] = False` raises IndexError
    exactly when nothing is to be removed.  A list that a loop fills under a condition may stay empty (the removal set "none" is in the
    property's quantifier): used as an index array it needs an integer dtype (or a guard on its length)."""
    for f in m.all_functions():
        if f.qualname not in EDITORS:
            continue
        lists = set()
        for n in ast.walk(f.node):
            if isinstance(n, ast.Assign) and len(n.targets) == 1 and isinstance(n.targets[0], ast.Name) \
                    and ((isinstance(n.value, ast.List) and not n.value.elts) or (isinstance(n.value, ast.Call) and getattr(n.value.func, 'id', '') == 'list' and not n.value.args)):
                lists.add(n.targets[0].id)
        hits = 0
        for n in ast.walk(f.node):
            if not isinstance(n, ast.Subscript):
                continue
            for c in ast.walk(n.slice):
                if isinstance(c, ast.Call) and stmt_text(c.func).split('.')[-1] in ('array', 'asarray') and c.args and isinstance(c.args[0], ast.Name) and c.args[0].id in lists \
                        and not any(k.arg == 'dtype' for k in c.keywords) and len(c.args) < 2:
                    hits += 1
                    rep.violated('R-INDEX', 'R-INDEX::geodepy/gnss.py::%s::index-array(%s)' % (f.qualname, c.args[0].id), where(f, n),
                                 '`%s` indexes with `%s`: `%s` starts as an empty list and is filled under a condition - when nothing is appended (an empty removal set) numpy makes a '
                                 'float64 array of it and the indexing raises IndexError; the output file is left truncated' % (stmt_text(n)[:60], stmt_text(c), c.args[0].id),
                                 expected='np.array(%s, dtype=int)' % c.args[0].id, actual=stmt_text(c))
        if not hits:
            rep.holds('R-INDEX', 'R-INDEX::geodepy/gnss.py::%s::index-array' % f.qualname, where(f, f.node), 'no index array is built from a list that may be empty', work=False)


def matrix_placement_rule(repo, rep, m):
    """a SOLUTION/MATRIX_ESTIMATE record is ` PARA1 PARA2 v0 [v1 [v2]]`: the values belong to row PARA1, columns PARA2, PARA2+1, PARA2+2.  Records of
    zeros may be omitted in a well-formed file (remove_matrixzeros_sinex writes such files): a reader that stores the values of a row one
    after the other and never looks at PARA2 puts everything after a gap into the wrong column (and runs out of values: IndexError).
    One instance per function that takes values out of split matrix records."""
    n = 0
    for f in m.all_functions():
        src_names = set(x.id for x in ast.walk(f.node) if isinstance(x, ast.Name)) | set(x.value for x in ast.walk(f.node) if isinstance(x, ast.Constant) and isinstance(x.value, str))
        if not any('matrix_estimate' in t.lower() for t in src_names if isinstance(t, str)):
            continue
        for a in ast.walk(f.node):
            if not (isinstance(a, ast.Assign) and len(a.targets) == 1 and isinstance(a.targets[0], ast.Name) and isinstance(a.value, ast.Call)):
                continue
            fn = a.value.func
            is_split = isinstance(fn, ast.Attribute) and fn.attr == 'split'
            if not is_split:
                continue
            var = a.targets[0].id
            offset = 0
            if isinstance(fn.value, ast.Name) and fn.value.id == 're':
                # re.split on a line with a leading blank yields an empty first field unless the empties are filtered away
                filtered = any(isinstance(b, ast.Assign) and isinstance(b.targets[0], ast.Name) and b.targets[0].id == var and isinstance(b.value, ast.Call)
                               and 'filter' in stmt_text(b.value) for b in ast.walk(f.node))
                offset = 0 if filtered else 1
            consts = set()
            takes_values = False
            for u in ast.walk(f.node):
                if isinstance(u, ast.Subscript) and isinstance(u.value, ast.Name) and u.value.id == var and isinstance(u.ctx, ast.Load):
                    if isinstance(u.slice, ast.Constant) and isinstance(u.slice.value, int):
                        consts.add(u.slice.value - offset)
                        if u.slice.value - offset >= 2:
                            takes_values = True
                    elif isinstance(u.slice, ast.Name):
                        takes_values = True
            # a membership / all-zero test over col[2:] takes no value OUT of the record
            if not takes_values:
                continue
            n += 1
            key = 'R-INDEX::geodepy/gnss.py::%s::matrix-record-placement' % f.qualname
            if 0 in consts and 1 in consts:
                rep.holds('R-INDEX', key, where(f, a), 'the values of a matrix record are placed by both of its index fields (PARA1, PARA2)')
            else:
                rep.violated('R-INDEX', key, where(f, a), '%s takes the values of a matrix record (`%s`) and reads %s of its two index fields: the values of a row are stored by POSITION, '
                             'so a file in which records of zeros are left out (what remove_matrixzeros_sinex writes) shifts every value after a gap into the wrong column - '
                             'remove_stns_sinex on such a file raises IndexError and leaves output.snx truncated'
                             % (f.qualname, stmt_text(a)[:50], 'only PARA1' if 0 in consts else ('only PARA2' if 1 in consts else 'neither')),
                             expected='row from field 0 and first column from field 1', actual='fields read by constant index: %s' % sorted(consts))
    rep.floor('R-INDEX', 1, 'readers of matrix records')
    if n < 2:
        raise AnalysisError('matrix-record readers: %d recognised (remove_stns_sinex, remove_velocity_sinex, read_sinex_matrix expected)' % n)


def container_rules(repo, rep, m):
    """three small dataflow rules of the SINEX code.
    1. the list of removed parameter numbers (`skip`) is a SET of numbers: its members are the index fields of the estimates of the removed
       sites, appended one by one; the matrix extraction asks `i not in skip`.  Between the filling and the asking the name may be rebound only
       to a container with the same members (set / list / tuple / sorted / a copy): a `range(first, last + 1)` also holds every number
       between two removed stations that are not neighbours in the file.
    2. a flag that a loop READS to choose the shape of what it builds (9- or 15-field tuples) is not SET inside that same loop: the records
       met before the first setting are built with the old value.
    3. a block whose second line is only SOMETIMES a comment (the code itself asks `block[1].startswith('*')`) is not walked from a fixed
       offset past that line: without the comment the first data line is skipped."""
    # 1
    f = m.functions.get('remove_stns_sinex')
    if f is None:
        raise AnalysisError('anchor vanished: gnss.remove_stns_sinex')
    tested = {}
    for n in ast.walk(f.node):
        if isinstance(n, ast.Compare) and len(n.ops) == 1 and isinstance(n.ops[0], (ast.In, ast.NotIn)) and isinstance(n.comparators[0], ast.Name):
            tested.setdefault(n.comparators[0].id, []).append(n)
    fills = {}
    for n in ast.walk(f.node):
        if isinstance(n, ast.Call) and isinstance(n.func, ast.Attribute) and n.func.attr in ('append', 'add') and isinstance(n.func.value, ast.Name) and n.func.value.id in tested:
            fills.setdefault(n.func.value.id, []).append(n)
    numeric = [v for v in tested if v in fills and any(isinstance(c.args[0], ast.Name) or 'int(' in stmt_text(c.args[0]) for c in fills[v] if c.args)
               and any(isinstance(t.left, (ast.BinOp, ast.Name)) for t in tested[v])]
    key = 'R-INDEX::geodepy/gnss.py::remove_stns_sinex::skip-set'
    cand = [v for v in numeric if any(isinstance(t.left, ast.BinOp) or (isinstance(t.left, ast.Name) and t.left.id in ('i', 'j', 'row', 'col')) for t in tested[v])]
    if not cand:
        rep.undecided('R-INDEX', key, where(f, f.node), 'the container of removed parameter numbers (appended to, then asked `in`) was not recognised')
    for v in cand:
        first_test = min(t.lineno for t in tested[v])
        last_fill = max(c.lineno for c in fills[v])
        rebinds = [n for n in ast.walk(f.node) if isinstance(n, ast.Assign) and len(n.targets) == 1 and isinstance(n.targets[0], ast.Name) and n.targets[0].id == v
                   and last_fill < n.lineno < first_test]
        bad = None
        unk = None
        for n in rebinds:
            e = n.value
            if isinstance(e, ast.IfExp):
                es = [e.body, e.orelse]
            else:
                es = [e]
            for x in es:
                txt = stmt_text(x)
                same = (isinstance(x, ast.Name) and x.id == v) or (isinstance(x, ast.Call) and getattr(x.func, 'id', '') in ('set', 'frozenset', 'list', 'tuple', 'sorted') and len(x.args) == 1
                                                                   and isinstance(x.args[0], ast.Name) and x.args[0].id == v) \
                    or (isinstance(x, ast.Call) and isinstance(x.func, ast.Attribute) and x.func.attr == 'copy' and isinstance(x.func.value, ast.Name) and x.func.value.id == v) \
                    or (isinstance(x, ast.Subscript) and isinstance(x.value, ast.Name) and x.value.id == v and isinstance(x.slice, ast.Slice) and x.slice.lower is None and x.slice.upper is None)
                if same:
                    continue
                if isinstance(x, ast.Call) and getattr(x.func, 'id', '') == 'range':
                    bad = (n, txt)
                else:
                    unk = (n, txt)
        if bad:
            rep.violated('R-INDEX', key, where(f, bad[0]), 'the removed parameter numbers are replaced by `%s` before the matrix extraction asks `not in %s`: every number between the first and the '
                         'last removed one now counts as removed - removing the 1st and 3rd of five stations also drops the rows and columns of the 2nd' % (bad[1][:60], v),
                         expected='the numbers appended in the estimate loop, as a list or set', actual=stmt_text(bad[0])[:100])
        elif unk:
            rep.undecided('R-INDEX', key, where(f, unk[0]), '`%s` is rebound to `%s` between its filling and its use: membership not decided' % (v, unk[1][:60]))
        else:
            rep.holds('R-INDEX', key, where(f, fills[v][0]), '`%s` holds exactly the index fields appended in the estimate loop when the matrix extraction asks `in %s`' % (v, v))
    # 2
    for name in ('read_sinex_estimate', 'read_sinex_matrix', 'remove_velocity_sinex', 'remove_stns_sinex', 'remove_matrixzeros_sinex'):
        g = m.functions.get(name)
        if g is None:
            continue
        key = 'R-TYPESTATE::geodepy/gnss.py::%s::flag-set-while-read' % name
        hit = None
        n_flags = 0
        for lp in ast.walk(g.node):
            if not isinstance(lp, (ast.For, ast.While)):
                continue
            sets = {}
            for n in ast.walk(lp):
                if isinstance(n, ast.Assign) and len(n.targets) == 1 and isinstance(n.targets[0], ast.Name) and isinstance(n.value, ast.Constant) and isinstance(n.value.value, bool):
                    sets.setdefault(n.targets[0].id, []).append(n)
            for n in ast.walk(lp):
                if isinstance(n, ast.If):
                    t = n.test
                    if isinstance(t, ast.UnaryOp) and isinstance(t.op, ast.Not):
                        t = t.operand
                    if isinstance(t, ast.Name) and t.id in sets:
                        # reading and setting in one loop is the ordinary "inside a block" state machine when the flag is set by the line
                        # that OPENS the block; what is excluded is a flag whose setting depends on the DATA lines the branch formats
                        builds = [x for x in ast.walk(n) if isinstance(x, (ast.Tuple,)) and len(getattr(x, 'elts', [])) >= 9]
                        if builds:
                            n_flags += 1
                            hit = hit or (t.id, sets[t.id][0], n)
        if hit:
            rep.violated('R-TYPESTATE', key, where(g, hit[1]), '`%s` chooses between the 9- and the 15-field tuple in the loop at line %d and is set to %s inside that same loop (line %d): the '
                         'first station is built before the flag is raised - with velocity parameters it comes out once as a position-only tuple and once more as a full one' % (
                             hit[0], hit[2].lineno, stmt_text(hit[1].value), hit[1].lineno), expected='the flag decided in the pass that reads the block, before the parse loop',
                         actual=stmt_text(hit[1])[:60])
        else:
            rep.holds('R-TYPESTATE', key, where(g, g.node), 'no flag that selects the shape of the built records is set inside the loop that reads it', work=False)
    # 3
    for name in EDITORS:
        g = m.functions[name]
        optional = {}
        for n in ast.walk(g.node):
            if isinstance(n, ast.If):
                for c in ast.walk(n.test):
                    if isinstance(c, ast.Call) and isinstance(c.func, ast.Attribute) and c.func.attr == 'startswith' and isinstance(c.func.value, ast.Subscript) \
                            and isinstance(c.func.value.value, ast.Name) and isinstance(c.func.value.slice, ast.Constant) and isinstance(c.func.value.slice.value, int):
                        optional.setdefault(c.func.value.value.id, set()).add(c.func.value.slice.value)
        for var, idxs in sorted(optional.items()):
            key = 'R-INDEX::geodepy/gnss.py::%s::%s-walk' % (name, var)
            bad = None
            for n in ast.walk(g.node):
                if isinstance(n, ast.Subscript) and isinstance(n.value, ast.Name) and n.value.id == var and isinstance(n.slice, ast.Slice) and isinstance(n.slice.lower, ast.Constant) \
                        and isinstance(n.slice.lower.value, int) and any(n.slice.lower.value > k >= 1 for k in idxs):
                    bad = n
            if bad is not None:
                rep.violated('R-INDEX', key, where(g, bad), '`%s` starts after line %d of the block, which the function itself treats as a comment only when it starts with `*`: in a file '
                             'without that optional comment line the first data line of the block is skipped (row 1 of the matrix is lost)' % (stmt_text(bad)[:50], max(idxs)),
                             expected='the whole block walked, data lines recognised by their first character', actual=stmt_text(bad)[:60])
            else:
                rep.holds('R-INDEX', key, where(g, g.node), 'the block `%s`, whose line %s is optional, is walked as a whole' % (var, sorted(idxs)), work=False)


def station_key_rules(repo, rep, m):
    """read_sinex_matrix builds one record per station from parallel per-station lists (code, solution number): both are taken at the station's
    POSITION.  A list replaced by a dictionary keyed by the station code collapses stations that occur with several solution numbers
    (ALIC 1, 2, 3 all come back with the last one): the solution number must be indexed like the code it stands next to."""
    f = m.functions.get('read_sinex_matrix')
    if f is None:
        raise AnalysisError('anchor vanished: gnss.read_sinex_matrix')
    key = 'R-INDEX::geodepy/gnss.py::read_sinex_matrix::station-fields-by-position'
    tuples = [n for n in ast.walk(f.node) if isinstance(n, ast.Assign) and isinstance(n.value, ast.Tuple) and len(n.value.elts) >= 5
              and isinstance(n.value.elts[0], ast.Subscript) and isinstance(n.value.elts[1], ast.Subscript)]
    if not tuples:
        rep.undecided('R-INDEX', key, where(f, f.node), 'record tuples (code[i], soln[i], ...) not found')
        return
    bad = None
    for t in tuples:
        i0, i1 = stmt_text(t.value.elts[0].slice), stmt_text(t.value.elts[1].slice)
        if i0 != i1:
            bad = bad or (t, i0, i1)
    if bad:
        t, i0, i1 = bad
        rep.violated('R-INDEX', key, where(f, t), 'the record takes the station code at `[%s]` and the solution number at `[%s]`: the second is looked up by VALUE (a dictionary keyed by the code), '
                     'so a station that occurs with several solution numbers gets the last one in every record' % (i0, i1), expected='both at the station position [%s]' % i0,
                     actual=stmt_text(t.value.elts[1])[:40])
    else:
        rep.holds('R-INDEX', key, where(f, tuples[0]), 'code and solution number of each record are taken at the same station position (%d record forms)' % len(tuples))


def verbatim_rules(repo, rep, m):
    """'leaves every other line unchanged': the block readers whose lines the editors write back (comments, header and data blocks) keep each
    line as it is in the file apart from the line end - `line.rstrip()`.  A reader that strips BOTH ends removes the blank in column 1
    that marks a SINEX data line: ' Reference frame: ITRF2014' in +FILE/COMMENT comes out as 'Reference frame: ITRF2014', which is not a
    SINEX line.  Sibling rule over the readers reachable from the three editors (15 of them; the line-end idiom is theirs)."""
    rs = Resolver(repo)
    seen = {}
    todo = [m.functions[n] for n in EDITORS]
    while todo:
        f = todo.pop()
        if f.qualname in seen:
            continue
        seen[f.qualname] = f
        for c in calls_in(f.node):
            t = rs.callee(f, c)
            if isinstance(t, Func) and t.module is m:
                todo.append(t)
    n = 0
    for q, f in sorted(seen.items()):
        if q in EDITORS:
            continue
        for c in ast.walk(f.node):
            if isinstance(c, ast.Call) and isinstance(c.func, ast.Attribute) and c.func.attr == 'append' and len(c.args) == 1:
                a = c.args[0]
                if isinstance(a, ast.Call) and isinstance(a.func, ast.Attribute) and a.func.attr in ('strip', 'lstrip', 'rstrip') and isinstance(a.func.value, ast.Name) \
                        and a.func.value.id == 'line':
                    n += 1
                    key = 'R-FORMAT::geodepy/gnss.py::%s::verbatim-lines' % q
                    if a.func.attr == 'rstrip':
                        rep.holds('R-FORMAT', key, where(f, c), '%s keeps each line apart from its line end (line.rstrip())' % q, work=False)
                    else:
                        rep.violated('R-FORMAT', key, where(f, c), '%s stores `%s`: the leading blank of a data line is removed, and the editors write the stored lines back - a +FILE/COMMENT text '
                                     'line " Reference frame: ITRF2014" reappears in the output starting in column 1, which is not a SINEX line; every other block reader uses line.rstrip()' % (
                                         q, stmt_text(a)[:30]), expected='line.rstrip()', actual=stmt_text(a)[:40])
    rep.floor('R-FORMAT', 10, 'formats and block readers')


def run(repo, rep):
    m = repo.module('geodepy.gnss')
    rep.trust('python ast of geodepy/gnss.py; string-shape summaries of its own reader functions (rstrip/strip -> no newline, readline -> newline)')
    rep.trust('SINEX 2.02 column layout of SOLUTION/ESTIMATE and SITE/ID records (frozen in the checker)')
    rep.assume('the output stream is the file opened with mode w in each editing function; format() / f-string fields with a width contain no newline')
    typestate_rules(repo, rep, m)
    format_rules(repo, rep, m)
    clock_rules(repo, rep, m)
    prefix_rules(repo, rep, m)
    reader_rules(repo, rep, m)
    container_rules(repo, rep, m)
    empty_index_rule(repo, rep, m)
    matrix_placement_rule(repo, rep, m)
    verbatim_rules(repo, rep, m)
    station_key_rules(repo, rep, m)
    from . import common
    common.iterator_reuse_rule(repo, rep, ['geodepy.gnss'])
    from . import c18x
    c18x.run(rep, m)
    c18x.run2(rep, m)


def controls(repo):
    out = []
    out.append(('estimate-column', text_variant(repo, 'geodepy/gnss.py', 'stax_sd = float(line[69:80])', 'stax_sd = float(line[68:80])'), 'read_sinex_estimate::stax_sd'))
    out.append(('missing-newline', text_variant(repo, 'geodepy/gnss.py', "        out.write('%ENDSNX\\n')\n\n    return\n\ndef remove_velocity_sinex", "        out.write('%ENDSNX')\n\n    return\n\ndef remove_velocity_sinex"), 'remove_stns_sinex::<end>'))
    out.append(('column-test-off-by-one', text_variant(repo, 'geodepy/gnss.py', "if j+1 not in skip:", "if j not in skip:"), 'extract::lower::column-test'))
    out.append(('mirror-element', text_variant(repo, 'geodepy/gnss.py', "Q[col+1, row-1] = q3", "Q[col+1, row] = q3"), 'fill::value2'))
    out.append(('zero-test-field', text_variant(repo, 'geodepy/gnss.py', 'if all(float(val)==0 for val in col[2:]):',
                                                'if all(float(val)==0 for val in col[3:]):'), 'zero-line'))
    out.append(('removed-numbers-as-a-range', text_variant(repo, 'geodepy/gnss.py', "        del solution_estimate\n\n        out.write(\"*-----", "        del solution_estimate\n        skip = range(skip[0], skip[-1] + 1) if skip else skip\n\n        out.write(\"*-----"), 'skip-set'))
    out.append(('comment-lines-stripped', text_variant(repo, 'geodepy/gnss.py', '                comments.append(line.rstrip())', '                comments.append(line.strip())'), 'verbatim-lines'))
    out.append(('matrix-values-by-position', text_variant(repo, 'geodepy/gnss.py', "                    first = int(cols[1]) - 1\n                else:\n                    first = int(cols[1]) - int(row)\n", "                    first = len(vcv.get(row, []))\n                else:\n                    first = len(vcv.get(row, []))\n"), 'matrix-record-placement'))
    out.append(('stamp-at-definition-time', text_variant(repo, 'geodepy/gnss.py', "def remove_matrixzeros_sinex(sinex):", "def remove_matrixzeros_sinex(sinex, stamp=set_creation_time()):"), 'default(stamp)'))
    out.append(('index-array-from-empty-list', text_variant(repo, 'geodepy/gnss.py', "        sub_vcv = {}\n        sub_row = 0\n", "        sub_vcv = {}\n        sub_row = 0\n        np.ones(len(vcv) + 1)[np.array(skip)] = 0\n"), 'index-array(skip)'))
    out.append(('splice-width', text_variant(repo, 'geodepy/gnss.py', "        header = header[:15] + creation_time + header[27:]\n        old_num_params = header[60:65]",
                                             "        header = header[:15] + creation_time + header[28:]\n        old_num_params = header[60:65]"), 'header[15:28]'))
    return out
