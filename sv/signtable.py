"""Finite enumeration of orderings for values that are only touched through comparisons (DESIGN C10.4, C19.3)."""
import ast
from .model import stmt_text

SIGN_PRESERVING = {'radians', 'degrees', 'float', 'angular_typecheck', 'abs_'}


def sign_source(func, name, _depth=0):
    """the parameter whose sign `name` carries at the end of the straight-line prefix: follows
    'x = f(y)' with sign-preserving unary f; None when any assignment of x has another shape."""
    params = set(p.name for p in func.params)
    vals = []
    for n in ast.walk(func.node):
        if isinstance(n, ast.Assign) and len(n.targets) == 1 and isinstance(n.targets[0], ast.Name) \
                and n.targets[0].id == name:
            vals.append(n.value)
        elif isinstance(n, (ast.AugAssign,)) and isinstance(n.target, ast.Name) and n.target.id == name:
            return None
    if not vals:
        return name if name in params else None
    cands = set()
    for v in vals:
        while isinstance(v, ast.Call) and isinstance(v.func, ast.Name) and v.func.id in SIGN_PRESERVING and len(v.args) == 1:
            v = v.args[0]
        if not isinstance(v, ast.Name):
            return None
        if v.id == name:
            if name in params:
                cands.add(name)
            continue
        if _depth > 6:
            return None
        s = sign_source(func, v.id, _depth + 1)
        if s is None:
            return None
        cands.add(s)
    if len(cands) == 1:
        return list(cands)[0]
    return None


class Undecidable(Exception):
    pass


def eval_test(test, env):
    """env: name -> number (representative). Only names, numeric constants, comparisons, and/or/not."""
    if isinstance(test, ast.BoolOp):
        vals = [eval_test(v, env) for v in test.values]
        return all(vals) if isinstance(test.op, ast.And) else any(vals)
    if isinstance(test, ast.UnaryOp) and isinstance(test.op, ast.Not):
        return not eval_test(test.operand, env)
    if isinstance(test, ast.Compare):
        left = eval_num(test.left, env)
        ok = True
        for op, c in zip(test.ops, test.comparators):
            right = eval_num(c, env)
            r = {ast.Lt: left < right, ast.LtE: left <= right, ast.Gt: left > right, ast.GtE: left >= right,
                 ast.Eq: left == right, ast.NotEq: left != right}.get(type(op))
            if r is None:
                raise Undecidable(stmt_text(test))
            ok = ok and r
            left = right
        return ok
    raise Undecidable(stmt_text(test))


def eval_num(e, env):
    if isinstance(e, ast.Constant) and isinstance(e.value, (int, float)):
        return e.value
    if isinstance(e, ast.Name) and e.id in env:
        return env[e.id]
    if isinstance(e, ast.UnaryOp) and isinstance(e.op, ast.USub):
        return -eval_num(e.operand, env)
    if isinstance(e, ast.BinOp) and isinstance(e.op, (ast.Sub, ast.Add)):
        a, b = eval_num(e.left, env), eval_num(e.right, env)
        return a - b if isinstance(e.op, ast.Sub) else a + b
    if isinstance(e, ast.BinOp) and isinstance(e.op, (ast.Mult, ast.Div, ast.Mod, ast.FloorDiv)):
        a, b = eval_num(e.left, env), eval_num(e.right, env)
        try:
            return {ast.Mult: lambda: a * b, ast.Div: lambda: a / b, ast.Mod: lambda: a % b, ast.FloorDiv: lambda: a // b}[type(e.op)]()
        except ZeroDivisionError:
            raise Undecidable(stmt_text(e))
    if isinstance(e, ast.Call) and len(e.args) in (1, 2) and not e.keywords:
        import math
        nm = e.func.id if isinstance(e.func, ast.Name) else (e.func.attr if isinstance(e.func, ast.Attribute) else None)
        fn = {'sin': math.sin, 'cos': math.cos, 'tan': math.tan, 'radians': math.radians, 'degrees': math.degrees, 'abs': abs, 'fabs': abs,
              'float': float, 'fmod': math.fmod, 'copysign': math.copysign, 'atan': math.atan, 'atan2': math.atan2, 'sign': lambda x: (x > 0) - (x < 0),
              'angular_typecheck': lambda x: x}.get(nm)
        if fn is not None:
            try:
                return fn(*[eval_num(a, env) for a in e.args])
            except (ValueError, ZeroDivisionError):
                raise Undecidable(stmt_text(e))
    raise Undecidable(stmt_text(e))


def straight_line_values(func, upto, env):
    """numeric values of the names assigned by the top-level straight-line statements func.body[:upto], started from env (parameter
    representatives); names whose defining expression is outside the arithmetic subset are left out"""
    vals = dict(env)
    for st in func.node.body[:upto]:
        if isinstance(st, ast.Assign) and len(st.targets) == 1 and isinstance(st.targets[0], ast.Name):
            try:
                vals[st.targets[0].id] = eval_num(st.value, vals)
            except Undecidable:
                vals.pop(st.targets[0].id, None)
    return vals


def negation_parity(stmts, var, env):
    """run the if-chain(s) in stmts; return +1/-1: whether `var = -var` was executed an odd number of times.
    Any other assignment to var raises Undecidable."""
    sign = 1
    for st in stmts:
        if isinstance(st, ast.If):
            branch = st.body if eval_test(st.test, env) else st.orelse
            sign *= negation_parity(branch, var, env)
        elif isinstance(st, ast.Assign) and len(st.targets) == 1 and isinstance(st.targets[0], ast.Name) and st.targets[0].id == var:
            v = st.value
            if isinstance(v, ast.UnaryOp) and isinstance(v.op, ast.USub) and isinstance(v.operand, ast.Name) and v.operand.id == var:
                sign = -sign
            elif isinstance(v, ast.BinOp) and isinstance(v.op, ast.Mult) and (
                    (isinstance(v.left, ast.Name) and v.left.id == var and isinstance(v.right, ast.UnaryOp)) or
                    (isinstance(v.right, ast.Name) and v.right.id == var and isinstance(v.left, ast.UnaryOp))):
                sign = -sign
            else:
                raise Undecidable('assignment %s' % stmt_text(st))
        elif isinstance(st, (ast.Pass, ast.Expr)):
            continue
        else:
            if any(isinstance(n, ast.Name) and n.id == var and isinstance(n.ctx, ast.Store) for n in ast.walk(st)):
                raise Undecidable(stmt_text(st))
    return sign
