"""E1 - resolved program model of the GeodePy repository (pure ast, nothing is imported or run).

Repo      : all analysed modules, built from the working tree ($VERIF_REPO, default /repo) or
            from in-memory sources (used by the positive controls and the mutant self-test).
Module    : imports, functions, classes, module-level bindings.
Func      : signature with explicit defaults, owning class, nested functions.
resolve   : names -> definitions across modules (re-exports followed), calls -> callees with
            every actual argument bound to its formal parameter.
"""
import ast
import os
from collections import OrderedDict

ANALYSED_DIRS = ('geodepy', 'api', 'Standalone')
SKIP_PARTS = ('tests',)


class AnalysisError(Exception):
    """The analyser cannot do its job (anchor vanished, floor missed, parse failure)."""


class Param(object):
    __slots__ = ('name', 'default', 'kind', 'index')

    def __init__(self, name, default, kind, index):
        self.name = name          # parameter name
        self.default = default    # ast node or None
        self.kind = kind          # 'pos' | 'kwonly' | 'vararg' | 'kwarg'
        self.index = index

    def __repr__(self):
        return 'Param(%s)' % self.name


class Func(object):
    def __init__(self, module, node, cls=None, parent=None):
        self.module = module
        self.node = node
        self.cls = cls
        self.parent = parent
        self.name = node.name
        if cls is not None:
            self.qualname = cls.name + '.' + node.name
        elif parent is not None:
            self.qualname = parent.qualname + '.<locals>.' + node.name
        else:
            self.qualname = node.name
        self.params = self._params(node.args)
        self.nested = OrderedDict()
        for st in ast.walk(node):
            pass
        for st in node.body:
            self._collect_nested(st)

    def _collect_nested(self, st):
        if isinstance(st, (ast.FunctionDef,)):
            self.nested[st.name] = Func(self.module, st, None, self)
            return
        for child in ast.iter_child_nodes(st):
            if isinstance(child, ast.stmt):
                self._collect_nested(child)
            elif isinstance(child, ast.ExceptHandler):
                for s in child.body:
                    self._collect_nested(s)

    @staticmethod
    def _params(a):
        out = []
        pos = list(a.posonlyargs) + list(a.args)
        ndef = len(a.defaults)
        for i, p in enumerate(pos):
            d = None
            k = i - (len(pos) - ndef)
            if k >= 0:
                d = a.defaults[k]
            out.append(Param(p.arg, d, 'pos', i))
        if a.vararg:
            out.append(Param(a.vararg.arg, None, 'vararg', len(out)))
        for p, d in zip(a.kwonlyargs, a.kw_defaults):
            out.append(Param(p.arg, d, 'kwonly', len(out)))
        if a.kwarg:
            out.append(Param(a.kwarg.arg, None, 'kwarg', len(out)))
        return out

    @property
    def key(self):
        return self.module.relpath + '::' + self.qualname

    @property
    def is_method(self):
        return self.cls is not None

    def param(self, name):
        for p in self.params:
            if p.name == name:
                return p
        return None

    def call_params(self):
        """parameters as seen by a caller (self dropped for methods)."""
        ps = self.params
        if self.cls is not None and ps and ps[0].name in ('self', 'cls'):
            if not any(isinstance(d, ast.Name) and d.id == 'staticmethod' for d in self.node.decorator_list):
                ps = ps[1:]
        return ps

    def __repr__(self):
        return '<Func %s>' % self.key


class Class(object):
    def __init__(self, module, node):
        self.module = module
        self.node = node
        self.name = node.name
        self.methods = OrderedDict()
        self.bases = node.bases
        for st in node.body:
            if isinstance(st, ast.FunctionDef):
                self.methods[st.name] = Func(module, st, self)

    @property
    def key(self):
        return self.module.relpath + '::' + self.name

    def find(self, name, _depth=0):
        """method `name` of this class or of the first base class (same module) that defines it"""
        if name in self.methods:
            return self.methods[name]
        if _depth > 8:
            return None
        for b in self.bases:
            if isinstance(b, ast.Name) and b.id in self.module.classes and self.module.classes[b.id] is not self:
                r = self.module.classes[b.id].find(name, _depth + 1)
                if r is not None:
                    return r
        return None

    def init(self):
        return self.find('__init__')

    def __repr__(self):
        return '<Class %s>' % self.key


class Module(object):
    def __init__(self, repo, name, relpath, source):
        self.repo = repo
        self.name = name
        self.relpath = relpath
        self.source = source
        try:
            self.tree = ast.parse(source, filename=relpath)
        except SyntaxError as e:
            raise AnalysisError('cannot parse %s: %s' % (relpath, e))
        self.imports = {}        # local name -> ('module', modname) | ('attr', modname, attr)
        self.star_imports = []
        self.functions = OrderedDict()
        self.classes = OrderedDict()
        self.assigns = OrderedDict()   # name -> list of (value node, stmt)
        self._scan()

    def _scan(self):
        for st in self.tree.body:
            self._scan_stmt(st)

    def _scan_stmt(self, st):
        if isinstance(st, ast.Import):
            for a in st.names:
                if a.asname:
                    self.imports[a.asname] = ('module', a.name)
                else:
                    self.imports[a.name.split('.')[0]] = ('module', a.name.split('.')[0])
        elif isinstance(st, ast.ImportFrom):
            mod = st.module or ''
            for a in st.names:
                if a.name == '*':
                    self.star_imports.append(mod)
                else:
                    self.imports[a.asname or a.name] = ('attr', mod, a.name)
        elif isinstance(st, ast.FunctionDef):
            self.functions[st.name] = Func(self, st)
        elif isinstance(st, ast.ClassDef):
            self.classes[st.name] = Class(self, st)
        elif isinstance(st, ast.Assign):
            for t in st.targets:
                self._bind_target(t, st.value, st)
        elif isinstance(st, ast.AnnAssign) and st.value is not None:
            self._bind_target(st.target, st.value, st)
        elif isinstance(st, (ast.If, ast.Try, ast.With)):
            for child in ast.iter_child_nodes(st):
                if isinstance(child, ast.stmt):
                    self._scan_stmt(child)

    def _bind_target(self, t, value, st):
        if isinstance(t, ast.Name):
            self.assigns.setdefault(t.id, []).append((value, st))
        elif isinstance(t, (ast.Tuple, ast.List)) and isinstance(value, (ast.Tuple, ast.List)) \
                and len(t.elts) == len(value.elts):
            for a, b in zip(t.elts, value.elts):
                self._bind_target(a, b, st)

    def all_functions(self):
        """every function, method and nested function of the module."""
        out = []

        def rec(f):
            out.append(f)
            for g in f.nested.values():
                rec(g)
        for f in self.functions.values():
            rec(f)
        for c in self.classes.values():
            for m in c.methods.values():
                rec(m)
        return out

    def func(self, qualname):
        parts = qualname.split('.')
        if len(parts) == 1:
            return self.functions.get(parts[0])
        if parts[0] in self.classes and len(parts) == 2:
            return self.classes[parts[0]].methods.get(parts[1])
        if '<locals>' in parts:
            f = self.func('.'.join(parts[:parts.index('<locals>')]))
            rest = parts[parts.index('<locals>') + 1:]
            while f is not None and rest:
                f = f.nested.get(rest[0])
                rest = rest[1:]
                if rest and rest[0] == '<locals>':
                    rest = rest[1:]
            return f
        return None

    def __repr__(self):
        return '<Module %s>' % self.name


class Ext(object):
    """an external (non-repository) callable or object, e.g. math.sin, numpy.array."""
    __slots__ = ('name',)

    def __init__(self, name):
        self.name = name

    def __repr__(self):
        return '<Ext %s>' % self.name

    def __eq__(self, o):
        return isinstance(o, Ext) and o.name == self.name

    def __hash__(self):
        return hash(('Ext', self.name))


class ModuleConst(object):
    """a module-level binding (value expression in its defining module)."""

    def __init__(self, module, name, value, stmt):
        self.module = module
        self.name = name
        self.value = value
        self.stmt = stmt

    @property
    def key(self):
        return self.module.relpath + '::' + self.name

    def __repr__(self):
        return '<Const %s>' % self.key


STAR_EXPORTS = {'decimal': ('Decimal', 'getcontext', 'ROUND_HALF_UP', 'Context'), 'math': tuple(n for n in dir(__import__('math')) if not n.startswith('_'))}
BUILTINS = set(dir(__builtins__)) if not isinstance(__builtins__, dict) else set(__builtins__)


class Repo(object):
    def __init__(self, sources, root='<memory>'):
        """sources: {relative path: source text}"""
        self.root = root
        self.sources = dict(sources)
        self.modules = OrderedDict()
        self.by_path = {}
        for rel in sorted(sources):
            name = rel[:-3].replace('/', '.')
            if name.endswith('.__init__'):
                name = name[:-9]
            m = Module(self, name, rel, sources[rel])
            self.modules[name] = m
            self.by_path[rel] = m

    # ------------------------------------------------------------------ loading
    @classmethod
    def load(cls, root=None):
        root = root or os.environ.get('VERIF_REPO', '/repo')
        if not os.path.isdir(root):
            raise AnalysisError('repository root %s does not exist' % root)
        sources = {}
        for d in ANALYSED_DIRS:
            base = os.path.join(root, d)
            for dp, dn, fn in os.walk(base):
                dn[:] = [x for x in dn if x not in SKIP_PARTS and not x.startswith('.') and x != '__pycache__']
                for f in sorted(fn):
                    if f.endswith('.py') and not f.startswith('test_'):
                        p = os.path.join(dp, f)
                        rel = os.path.relpath(p, root)
                        with open(p, encoding='utf-8') as fh:
                            sources[rel] = fh.read()
        if not sources:
            raise AnalysisError('no python sources under %s' % root)
        return cls(sources, root)

    def variant(self, edits):
        """a new Repo with {relpath: new source} replaced (used for controls and mutants)."""
        s = dict(self.sources)
        s.update(edits)
        return Repo(s, self.root + '+variant')

    # ------------------------------------------------------------------ lookup
    def module(self, name):
        m = self.modules.get(name)
        if m is None:
            raise AnalysisError('anchor vanished: module %s not found' % name)
        return m

    def func(self, modname, qualname):
        f = self.module(modname).func(qualname)
        if f is None:
            raise AnalysisError('anchor vanished: function %s.%s not found' % (modname, qualname))
        return f

    def cls(self, modname, name):
        c = self.module(modname).classes.get(name)
        if c is None:
            raise AnalysisError('anchor vanished: class %s.%s not found' % (modname, name))
        return c

    def all_functions(self):
        out = []
        for m in self.modules.values():
            out.extend(m.all_functions())
        return out

    # ------------------------------------------------------------------ name resolution
    def resolve_global(self, module, name, _depth=0):
        """what a global name of `module` denotes: Func | Class | ModuleConst | Module | Ext | None"""
        if _depth > 10:
            return None
        if name in module.imports and (name in module.functions or name in module.classes or name in module.assigns):
            # bound more than once at module level: the LAST binding is what the name denotes once the module is imported (a function
            # defined below `from x import f` shadows the import, and the reverse)
            last = None
            for st in module.tree.body:
                if isinstance(st, (ast.FunctionDef, ast.ClassDef)) and st.name == name:
                    last = 'def'
                elif isinstance(st, ast.Assign) and any(isinstance(t, ast.Name) and t.id == name for t in st.targets):
                    last = 'def'
                elif isinstance(st, (ast.Import, ast.ImportFrom)) and any((al.asname or al.name.split('.')[0]) == name for al in st.names):
                    last = 'import'
            if last == 'import':
                imp = module.imports[name]
                if imp[0] != 'module' and imp[1] in self.modules:
                    r = self.resolve_global(self.modules[imp[1]], imp[2], _depth + 1)
                    if r is not None:
                        return r
        if name in module.functions:
            return module.functions[name]
        if name in module.classes:
            return module.classes[name]
        if name in module.assigns:
            v, st = module.assigns[name][-1]
            return ModuleConst(module, name, v, st)
        if name in module.imports:
            imp = module.imports[name]
            if imp[0] == 'module':
                if imp[1] in self.modules:
                    return self.modules[imp[1]]
                return Ext(imp[1])
            _, mod, attr = imp
            if mod in self.modules:
                r = self.resolve_global(self.modules[mod], attr, _depth + 1)
                if r is not None:
                    return r
                # a sub-module
                if mod + '.' + attr in self.modules:
                    return self.modules[mod + '.' + attr]
                return None
            return Ext(mod + '.' + attr)
        for mod in module.star_imports:
            if mod in self.modules:
                r = self.resolve_global(self.modules[mod], name, _depth + 1)
                if r is not None:
                    return r
        if name in BUILTINS:
            return Ext('builtins.' + name)
        for mod in module.star_imports:
            if mod not in self.modules and name in STAR_EXPORTS.get(mod, ()):
                return Ext(mod + '.' + name)
        return None

    def resolve_expr(self, func_or_module, expr, local_names=()):
        """resolve a Name / dotted Attribute that denotes a global object; None if it is local or unknown."""
        module = func_or_module.module if isinstance(func_or_module, Func) else func_or_module
        if isinstance(expr, ast.Name):
            if expr.id in local_names:
                return None
            return self.resolve_global(module, expr.id)
        if isinstance(expr, ast.Attribute):
            base = self.resolve_expr(func_or_module, expr.value, local_names)
            if isinstance(base, Module):
                return self.resolve_global(base, expr.attr)
            if isinstance(base, Ext):
                return Ext(base.name + '.' + expr.attr)
            if isinstance(base, Class):
                return base.methods.get(expr.attr)
            return None
        return None


def local_names(func):
    """names bound inside a function (parameters, assignment targets, loop targets, ...)."""
    names = set(p.name for p in func.params)
    declared_global = set()

    class V(ast.NodeVisitor):
        def visit_FunctionDef(self, n):
            if n is not func.node:
                names.add(n.name)
                return
            self.generic_visit(n)

        def visit_Lambda(self, n):
            return

        def visit_ClassDef(self, n):
            names.add(n.name)

        def visit_Global(self, n):
            declared_global.update(n.names)

        def visit_Name(self, n):
            if isinstance(n.ctx, (ast.Store, ast.Del)):
                names.add(n.id)

        def visit_ExceptHandler(self, n):
            if n.name:
                names.add(n.name)
            self.generic_visit(n)

        def visit_Import(self, n):
            for a in n.names:
                names.add((a.asname or a.name).split('.')[0])

        def visit_ImportFrom(self, n):
            for a in n.names:
                names.add(a.asname or a.name)

        def visit_ListComp(self, n):
            self.generic_visit(n)
        visit_SetComp = visit_DictComp = visit_GeneratorExp = visit_ListComp
    V().visit(func.node)
    names -= declared_global
    # enclosing function's locals are visible too
    p = func.parent
    while p is not None:
        names |= local_names(p)
        p = p.parent
    return names


class Binding(object):
    """result of binding a call's actual arguments to the callee's formals."""

    def __init__(self, callee, call):
        self.callee = callee
        self.call = call
        self.args = OrderedDict()      # param name -> ast expr (explicit)
        self.defaulted = OrderedDict() # param name -> default ast expr (omitted by the caller)
        self.extra = []                # actuals that could not be bound
        self.star = False              # *args / **kwargs at the call site

    def get(self, name):
        if name in self.args:
            return self.args[name]
        return self.defaulted.get(name)

    def explicit(self, name):
        return name in self.args


def bind_call(callee_params, call):
    """bind ast.Call actuals to a list of Param (caller view). Returns Binding (callee filled by caller)."""
    b = Binding(None, call)
    pos = [p for p in callee_params if p.kind == 'pos']
    i = 0
    for a in call.args:
        if isinstance(a, ast.Starred):
            b.star = True
            # unknown number of positionals: stop positional binding
            i = len(pos)
            b.extra.append(a)
            continue
        if i < len(pos):
            b.args[pos[i].name] = a
            i += 1
        else:
            b.extra.append(a)
    names = dict((p.name, p) for p in callee_params if p.kind in ('pos', 'kwonly'))
    for kw in call.keywords:
        if kw.arg is None:
            b.star = True
            continue
        if kw.arg in names:
            b.args[kw.arg] = kw.value
        else:
            b.extra.append(kw)
    for p in callee_params:
        if p.kind in ('pos', 'kwonly') and p.name not in b.args and p.default is not None:
            b.defaulted[p.name] = p.default
    return b


def calls_in(node):
    """all ast.Call nodes inside node, not descending into nested function definitions."""
    out = []

    def rec(n, top):
        if isinstance(n, (ast.FunctionDef, ast.Lambda, ast.ClassDef)) and not top:
            return
        if isinstance(n, ast.Call):
            out.append(n)
        for c in ast.iter_child_nodes(n):
            rec(c, False)
    rec(node, True)
    return out


def stmt_text(node):
    try:
        return ' '.join(ast.unparse(node).split())
    except Exception:
        return '<%s>' % type(node).__name__


def dotted(expr):
    """'a.b.c' for a Name/Attribute chain, else None"""
    parts = []
    while isinstance(expr, ast.Attribute):
        parts.append(expr.attr)
        expr = expr.value
    if isinstance(expr, ast.Name):
        parts.append(expr.id)
        return '.'.join(reversed(parts))
    return None
