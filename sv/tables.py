"""Oracle coefficient tables (exact rationals) and the tolerance-aware table comparison (R-TABLE)."""
from fractions import Fraction as F
import math

# Krueger series to n^8 (Karney 2011, eq. 35 extended to 8th order; the table GeographicLib ships for maxpow 8).
# ALPHA[r] = {power of n: coefficient}, r = 1..8
ALPHA = {
    1: {1: F(1, 2), 2: F(-2, 3), 3: F(5, 16), 4: F(41, 180), 5: F(-127, 288), 6: F(7891, 37800), 7: F(72161, 387072), 8: F(-18975107, 50803200)},
    2: {2: F(13, 48), 3: F(-3, 5), 4: F(557, 1440), 5: F(281, 630), 6: F(-1983433, 1935360), 7: F(13769, 28800), 8: F(148003883, 174182400)},
    3: {3: F(61, 240), 4: F(-103, 140), 5: F(15061, 26880), 6: F(167603, 181440), 7: F(-67102379, 29030400), 8: F(79682431, 79833600)},
    4: {4: F(49561, 161280), 5: F(-179, 168), 6: F(6601661, 7257600), 7: F(97445, 49896), 8: F(-40176129013, 7664025600)},
    5: {5: F(34729, 80640), 6: F(-3418889, 1995840), 7: F(14644087, 9123840), 8: F(2605413599, 622702080)},
    6: {6: F(212378941, 319334400), 7: F(-30705481, 10378368), 8: F(175214326799, 58118860800)},
    7: {7: F(1522256789, 1383782400), 8: F(-16759934899, 3113510400)},
    8: {8: F(1424729850961, 743921418240)},
}

# inverse series (Karney 2011 eq. 36 extended); cross-validated by exact series reversion in the thorough tier
BETA = {
    1: {1: F(1, 2), 2: F(-2, 3), 3: F(37, 96), 4: F(-1, 360), 5: F(-81, 512), 6: F(96199, 604800), 7: F(-5406467, 38707200), 8: F(7944359, 67737600)},
    2: {2: F(1, 48), 3: F(1, 15), 4: F(-437, 1440), 5: F(46, 105), 6: F(-1118711, 3870720), 7: F(51841, 1209600), 8: F(24749483, 348364800)},
    3: {3: F(17, 480), 4: F(-37, 840), 5: F(-209, 4480), 6: F(5569, 90720), 7: F(9261899, 58060800), 8: F(-6457463, 17740800)},
    4: {4: F(4397, 161280), 5: F(-11, 504), 6: F(-830251, 7257600), 7: F(466511, 2494800), 8: F(324154477, 7664025600)},
    5: {5: F(4583, 161280), 6: F(-108847, 3991680), 7: F(-8005831, 63866880), 8: F(22894433, 124540416)},
    6: {6: F(20648693, 638668800), 7: F(-16363163, 518918400), 8: F(-2204645983, 12915302400)},
    7: {7: F(219941297, 5535129600), 8: F(-497323811, 12454041600)},
    8: {8: F(191773887257, 3719607091200)},
}
# NOTE: the inverse series is  xi' = xi - sum beta_r sin(2 r xi) cosh(2 r eta); GeodePy stores b_r = -beta_r and adds.

# rectifying radius  A = a/(1+n) * (1 + n^2/4 + n^4/64 + n^6/256 + 25 n^8/16384)
RECT = {0: F(1), 2: F(1, 4), 4: F(1, 64), 6: F(1, 256), 8: F(25, 16384)}


def rect_oracle_derived(order=8):
    """(1 + n^2/4 + ...) from first principles: A(1+n)/a = sum_k (binom(1/2,k))^2 n^(2k)"""
    out = {}
    b = F(1)
    for k in range(0, order // 2 + 1):
        if k > 0:
            b = b * (F(1, 2) - (k - 1)) / k
        out[2 * k] = b * b
    return out


def poly_eval_abs(d, x):
    return sum(abs(c) * x ** k for k, c in d.items())


def deviation(code, oracle):
    keys = set(code) | set(oracle)
    d = {}
    for k in keys:
        v = F(code.get(k, 0)) - F(oracle.get(k, 0))
        if v:
            d[k] = v
    return d


def bound_deviation(d, xmin, xmax):
    """(witness, upper): witness = the deviation's exact magnitude at an end point of the range (a value that IS attained
    for some parameter in the quantifier domain); upper = a bound of its magnitude over the whole range [xmin, xmax]"""
    if not d:
        return F(0), F(0)
    if any(k < 0 for k in d) and xmin <= 0:
        return F(0), F(10) ** 30
    upper = max(poly_eval_abs(d, xmax), poly_eval_abs(d, xmin))
    w1 = abs(sum(c * xmax ** k for k, c in d.items()))
    w0 = abs(sum(c * xmin ** k for k, c in d.items())) if xmin > 0 or all(k >= 0 for k in d) else F(0)
    return max(w0, w1), upper


def frac_up(x, digits=12):
    """rational upper bound of a float constant"""
    q = 10 ** digits
    return F(math.ceil(x * q), q)


def fmt_poly(d, var='n'):
    if not d:
        return '0'
    return ' + '.join('%s*%s^%d' % (c, var, k) if k else str(c) for k, c in sorted(d.items()))


def table_rule(rep, rule, key, where, code, oracle, xmin, xmax, amp_low, amp_high, tol, what, unit='m'):
    """code/oracle: {power: Fraction}.  VIOLATED iff for some parameter value in the range the deviation's effect
    (exact deviation at a range end point times an amplification that is attained in the domain) exceeds tol;
    SUBTOL iff its largest possible effect over the whole range is below tol/10; UNDECIDED otherwise; HOLDS when identical."""
    if code is None:
        rep.undecided(rule, key, where, what + ': not a polynomial in the expected variable')
        return
    d = deviation(code, oracle)
    if not d:
        rep.holds(rule, key, where, what + ': equals the reference table exactly (%d coefficients)' % len(oracle))
        return
    lo, hi = bound_deviation(d, xmin, xmax)
    eff_lo = lo * amp_low
    eff_hi = hi * amp_high
    msg = '%s: deviation %s; effect between %.3g and %.3g %s (tolerance %.3g)' % (
        what, fmt_poly(d), float(eff_lo), float(eff_hi), unit, float(tol))
    if eff_lo > tol:
        rep.violated(rule, key, where, msg, expected=fmt_poly(oracle), actual=fmt_poly(code))
    elif eff_hi < tol / 10:
        rep.subtol(rule, key, where, msg, expected=fmt_poly(oracle), actual=fmt_poly(code))
    else:
        rep.undecided(rule, key, where, msg, expected=fmt_poly(oracle), actual=fmt_poly(code))


# ---------------------------------------------------------------------------------------- exact series reversion
class FS(object):
    """sum_m c_m e^{i m z}, c_m = {power of n: complex rational (re, im)} truncated at n^order"""

    def __init__(self, t=None, order=8):
        self.t = t or {}
        self.order = order

    def add(self, o, s=1):
        t = dict((m, dict(c)) for m, c in self.t.items())
        for m, c in o.t.items():
            d = t.setdefault(m, {})
            for k, (a, b) in c.items():
                x = d.get(k, (F(0), F(0)))
                d[k] = (x[0] + s * a, x[1] + s * b)
        return FS(_clean(t), self.order)

    def mul(self, o):
        t = {}
        for m1, c1 in self.t.items():
            for m2, c2 in o.t.items():
                d = t.setdefault(m1 + m2, {})
                for k1, (a1, b1) in c1.items():
                    for k2, (a2, b2) in c2.items():
                        k = k1 + k2
                        if k > self.order:
                            continue
                        x = d.get(k, (F(0), F(0)))
                        d[k] = (x[0] + a1 * a2 - b1 * b2, x[1] + a1 * b2 + b1 * a2)
        return FS(_clean(t), self.order)

    def scale(self, q):
        return FS(dict((m, dict((k, (a * q, b * q)) for k, (a, b) in c.items())) for m, c in self.t.items()), self.order)

    def deriv(self):
        t = {}
        for m, c in self.t.items():
            if m == 0:
                continue
            t[m] = dict((k, (-b * m, a * m)) for k, (a, b) in c.items())   # multiply by i*m
        return FS(t, self.order)


def _clean(t):
    out = {}
    for m, c in t.items():
        c2 = dict((k, v) for k, v in c.items() if v[0] or v[1])
        if c2:
            out[m] = c2
    return out


def sine_series(coefs, order=8):
    """sum_j coefs[j](n) sin(2 j z) as FS"""
    t = {}
    for j, poly in coefs.items():
        # sin(2jz) = (e^{i2jz} - e^{-i2jz})/(2i) = -i/2 e^{+} + i/2 e^{-}
        t[2 * j] = dict((k, (F(0), -c / 2)) for k, c in poly.items())
        t[-2 * j] = dict((k, (F(0), c / 2)) for k, c in poly.items())
    return FS(t, order)


def extract_sine(fs):
    """inverse of sine_series; returns ({j: poly}, residual is_zero)"""
    out = {}
    ok = True
    for m, c in fs.t.items():
        if m % 2 or m == 0:
            ok = False
            continue
        j = abs(m) // 2
        for k, (a, b) in c.items():
            if a:
                ok = False
            val = -2 * b if m > 0 else 2 * b
            d = out.setdefault(j, {})
            if m > 0:
                d[k] = val
            else:
                if d.get(k, val) != val:
                    ok = False
    return dict((j, dict((k, v) for k, v in p.items() if v)) for j, p in out.items()), ok


def revert(alpha, order=8):
    """given z = z' + sum alpha_j sin(2 j z'), return beta with z' = z - sum beta_j sin(2 j z)  (Lagrange inversion)
    z' = z + sum_{k>=1} (-1)^k / k! * d^{k-1}/dz^{k-1} [ g(z)^k ],  g = sum alpha_j sin(2 j .)"""
    g = sine_series(alpha, order)
    total = FS({}, order)
    gk = None
    fact = 1
    for k in range(1, order + 1):
        gk = g if gk is None else gk.mul(g)
        fact *= k
        term = gk
        for _ in range(k - 1):
            term = term.deriv()
        total = total.add(term.scale(F((-1) ** k, fact)))
    # z' - z = total = - sum beta_j sin(2 j z)
    neg, ok = extract_sine(total)
    beta = dict((j, dict((k, -v) for k, v in p.items())) for j, p in neg.items())
    return beta, ok


# ---------------------------------------------------------------------------------------- Student t quantiles (pure python)
def _betacf(a, b, x):
    """continued fraction for the incomplete beta function (modified Lentz)"""
    MAXIT = 500
    EPS = 1e-16
    FPMIN = 1e-300
    qab, qap, qam = a + b, a + 1.0, a - 1.0
    c = 1.0
    d = 1.0 - qab * x / qap
    if abs(d) < FPMIN:
        d = FPMIN
    d = 1.0 / d
    h = d
    for m in range(1, MAXIT + 1):
        m2 = 2 * m
        aa = m * (b - m) * x / ((qam + m2) * (a + m2))
        d = 1.0 + aa * d
        if abs(d) < FPMIN:
            d = FPMIN
        c = 1.0 + aa / c
        if abs(c) < FPMIN:
            c = FPMIN
        d = 1.0 / d
        h *= d * c
        aa = -(a + m) * (qab + m) * x / ((a + m2) * (qap + m2))
        d = 1.0 + aa * d
        if abs(d) < FPMIN:
            d = FPMIN
        c = 1.0 + aa / c
        if abs(c) < FPMIN:
            c = FPMIN
        d = 1.0 / d
        de = d * c
        h *= de
        if abs(de - 1.0) < EPS:
            break
    return h


def _betai(a, b, x):
    if x <= 0.0:
        return 0.0
    if x >= 1.0:
        return 1.0
    bt = math.exp(math.lgamma(a + b) - math.lgamma(a) - math.lgamma(b) + a * math.log(x) + b * math.log(1.0 - x))
    if x < (a + 1.0) / (a + b + 2.0):
        return bt * _betacf(a, b, x) / a
    return 1.0 - bt * _betacf(b, a, 1.0 - x) / b


def t_two_sided_tail(t, nu):
    """P(|T| > t) for Student's t with nu degrees of freedom"""
    return _betai(nu / 2.0, 0.5, nu / (nu + t * t))


def t_quantile_975(nu):
    """t with P(|T| > t) = 0.05, by bisection (|error| < 1e-10)"""
    lo, hi = 0.5, 100.0
    for _ in range(200):
        mid = 0.5 * (lo + hi)
        if t_two_sided_tail(mid, nu) > 0.05:
            lo = mid
        else:
            hi = mid
        if hi - lo < 1e-12:
            break
    return 0.5 * (lo + hi)
