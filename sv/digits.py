"""Abstract decimal strings: an extension of the abstract evaluator for code that formats numbers into text, cuts and joins the
digit strings and parses them back (angles.dec2hp, hp2dec, HPAngle).  A NumStr is a sequence of tokens

    ('int', v)              decimal rendering of the integer-valued expression v, unknown number of digits
    ('sint', x, p)          signed integer part of  format(x, '.<p>f')
    ('dot',)                a decimal point
    ('fix', v, wi, wf, pt)  v rendered with wi zero-filled integer digits and wf fractional digits (wf None: trailing zeros
                            stripped, unknown count), with (pt) or without the decimal point between them
    ('pad', v, spec)        v rendered blank-padded (a blank inside a digit string)
    ('dig', d)              one digit, d a symbolic digit 0..9
    ('lit', s)              literal characters

float()/int() of a NumStr gives the exact positional value as a normal form.  Assumptions (the callers record them):
the value formatted with '0W' / '0W.Pf' fits its width; formatting to P places denotes the value itself (the rounding to P places is
accounted for by the caller's tolerance); the digits of format(x, '.Pf') are the atoms fdigit(x, P, k), k = 1..P.
"""
import ast
import re
from . import alg
from .alg import Rat, C
from .symval import Evaluator, Val, Str, Tup, Bool, NoneV, BoundExt, SliceV, IteV, _const_int, argkey


class NumStr(Val):
    def __init__(self, toks):
        self.toks = list(toks)

    def __repr__(self):
        out = []
        for t in self.toks:
            if t[0] == 'int':
                out.append('<int %s>' % alg.fmt(t[1]))
            elif t[0] == 'sint':
                out.append('<ipart %s>' % alg.fmt(t[1]))
            elif t[0] == 'dot':
                out.append('.')
            elif t[0] == 'fix':
                out.append('<%s:%d%s%s>' % (alg.fmt(t[1]), t[2], '.' if t[4] else '', '*' if t[3] is None else t[3]))
            elif t[0] == 'pad':
                out.append('<%s:%s blank-padded>' % (alg.fmt(t[1]), t[2]))
            elif t[0] == 'dig':
                out.append('<%s>' % alg.fmt(t[1]))
            elif t[0] == 'repr':
                out.append('<repr %s>' % alg.fmt(t[1]))
            else:
                out.append(t[1])
        return 'numstr(' + ''.join(out) + ')'

    @property
    def key(self):
        return repr(self)


def fdigit(x, p, k):
    return alg.opaque('fdigit', (x, C(p), C(k)))


def fint(x, p):
    return alg.opaque('fint', (x, C(p)))


class DigitEvaluator(Evaluator):
    def __init__(self, *a, **kw):
        Evaluator.__init__(self, *a, **kw)
        self.formats = []          # (function name, spec, node) of every numeric format specification met
        self.string_problems = []  # (kind, node, message): malformed digit strings reaching float()/int()
        self.magnitude = None      # (symbol Rat, Fraction): comparisons of abs(symbol) with a constant are decided for this magnitude
        self.thresholds = set()    # constants abs(symbol) was compared with

    # ---- case split on the magnitude of the argument
    def compare(self, op, a, b, node=None):
        if self.magnitude is not None and isinstance(a, Rat) and isinstance(b, Rat):
            sym, mag = self.magnitude[0], self.magnitude[1]
            sign = self.magnitude[2] if len(self.magnitude) > 2 else None      # +1 / -1: the argument itself has this sign (then x and -x fold too)
            targets = [(alg.fabs(sym), mag)]
            if sign is not None:
                targets += [(sym, sign * mag), (-sym, -sign * mag)]
            for u, v, flip in ((a, b, False), (b, a, True)):
                c = v.as_fraction()
                if c is None:
                    continue
                for target, val in targets:
                    if u.equals(target):
                        if c != 0:
                            self.thresholds.add(abs(c))
                        name = {ast.Lt: 'lt', ast.LtE: 'le', ast.Gt: 'gt', ast.GtE: 'ge', ast.Eq: 'eq', ast.NotEq: 'ne'}.get(type(op))
                        if name is None:
                            break
                        l, r = (val, c) if not flip else (c, val)
                        return Bool({'lt': l < r, 'le': l <= r, 'gt': l > r, 'ge': l >= r, 'eq': l == r, 'ne': l != r}[name])
        return Evaluator.compare(self, op, a, b, node)

    # ---- formatting
    def format_value(self, v, spec, node):
        if isinstance(v, NumStr) and spec == '':
            return v
        if isinstance(v, Str) and spec == '':
            return NumStr([('lit', v.s)])
        if not isinstance(v, Rat):
            return None
        self.formats.append((self._stack[-1].qualname if self._stack else '?', spec, node))
        if spec == '':
            a = v.as_fraction()
            if a is not None and a.denominator == 1:
                return NumStr([('lit', str(int(a)))])
            return NumStr([('int', v)])
        m = re.match(r'^0(\d+)d?$', spec)
        if m:
            return NumStr([('fix', v, int(m.group(1)), 0, False)])
        m = re.match(r'^0(\d+)\.(\d+)f$', spec)
        if m:
            w, p = int(m.group(1)), int(m.group(2))
            wi = w - p - (1 if p else 0)
            if wi < 1:
                return NumStr([('pad', v, spec)])
            return NumStr([('fix', v, wi, p, p > 0)])
        m = re.match(r'^\.(\d+)f$', spec)
        if m:
            p = int(m.group(1))
            return NumStr([('sint', v, p), ('dot',)] + [('dig', fdigit(v, p, k)) for k in range(1, p + 1)])
        m = re.match(r'^(\d+)(\.(\d+))?[df]?$', spec)
        if m:
            return NumStr([('pad', v, spec)])
        return None

    def e_JoinedStr(self, e, env, func):
        toks = []
        ok = True
        for v in e.values:
            if isinstance(v, ast.Constant):
                toks.append(('lit', str(v.value)))
                continue
            val = self.eval(v.value, env, func)
            spec = ''
            if v.format_spec is not None:
                for c in v.format_spec.values:
                    if isinstance(c, ast.Constant):
                        spec += str(c.value)
                    else:
                        # nested field, e.g. f'{x:.{places}f}': must evaluate to a constant (possibly under the magnitude case split)
                        k = _const_int(self.eval(c.value, env, func))
                        if k is None:
                            spec = None
                            break
                        spec += str(k)
            if spec is None:
                ok = False
                break
            r = self.format_value(val, spec, v)
            if r is None:
                ok = False
                break
            toks.extend(r.toks)
        if not ok:
            return Evaluator.e_JoinedStr(self, e, env, func)
        return self.norm(NumStr(toks))

    def norm(self, s):
        """literal characters are split into dots and literal digits; adjacent literals merged"""
        out = []
        for t in s.toks:
            if t[0] == 'lit':
                for ch in t[1]:
                    if ch == '.':
                        out.append(('dot',))
                    elif ch.isdigit():
                        out.append(('dig', C(int(ch))))
                    else:
                        out.append(('lit', ch))
            else:
                out.append(t)
        if all(t[0] == 'lit' for t in out) and out:
            return Str(''.join(t[1] for t in out))
        return NumStr(out)

    # ---- attribute / method access
    def getattr(self, o, attr, node):
        if isinstance(o, NumStr):
            return BoundExt(o, attr)
        return Evaluator.getattr(self, o, attr, node)

    def ext_method(self, obj, attr, args, kwargs, node):
        if isinstance(obj, NumStr):
            r = self.numstr_method(obj, attr, args, node)
            if r is not None:
                return r
            self.diag('unknown', node, 'string method %s on a digit string' % attr)
            return self.unknown('string method ' + attr, node)
        return Evaluator.ext_method(self, obj, attr, args, kwargs, node)

    def numstr_method(self, s, attr, args, node):
        toks = s.toks
        if any(t[0] == 'repr' for t in toks) and attr in ('split', 'partition', 'index', 'find'):
            self.string_problems.append(('repr', node, 'the digits are taken from str(x): the shortest repr of a float is not a fixed-point rendering - below 1e-4 it is '
                                         'in exponent notation ("1e-05"), whole numbers print as "5.0", so positions in it are not decimal places'))
            return None
        if attr in ('strip',) and not args:
            return s
        if attr == 'rstrip' and len(args) == 1 and isinstance(args[0], Str) and args[0].s == '0' and toks:
            t = toks[-1]
            if t[0] == 'fix' and t[4] and t[3] is not None and t[3] > 0:
                return NumStr(toks[:-1] + [('fix', t[1], t[2], None, True)])
            if t[0] == 'fix' and t[3] is None:
                return s
            return None
        if attr == 'replace' and len(args) == 2 and isinstance(args[0], Str) and isinstance(args[1], Str) and args[0].s == '.' and args[1].s == '':
            out = []
            for t in toks:
                if t[0] == 'dot':
                    continue
                if t[0] == 'fix':
                    out.append(('fix', t[1], t[2], t[3], False))
                else:
                    out.append(t)
            return NumStr(out)
        if attr == 'split' and len(args) == 1 and isinstance(args[0], Str) and args[0].s == '.':
            dots = [i for i, t in enumerate(toks) if t[0] == 'dot']
            if len(dots) == 1 and not any(t[0] == 'fix' and t[4] for t in toks):
                i = dots[0]
                return Tup([NumStr(toks[:i]), NumStr(toks[i + 1:])], True)
            return None
        return None

    # ---- subscripts
    def getitem(self, o, idx, node):
        if isinstance(o, NumStr):
            if all(t[0] == 'dig' for t in o.toks):
                k = _const_int(idx) if not isinstance(idx, (SliceV, list)) else None
                if k is not None:
                    if -len(o.toks) <= k < len(o.toks):
                        return NumStr([o.toks[k]])
                    self.diag('shape', node, 'index %d outside a %d-digit string' % (k, len(o.toks)))
                    return self.unknown('digit index out of range', node)
                if isinstance(idx, SliceV) and idx.step is None:
                    lo = _const_int(idx.lo) if idx.lo is not None and not isinstance(idx.lo, NoneV) else None
                    hi = _const_int(idx.hi) if idx.hi is not None and not isinstance(idx.hi, NoneV) else None
                    lo_ok = idx.lo is None or isinstance(idx.lo, NoneV) or lo is not None
                    hi_ok = idx.hi is None or isinstance(idx.hi, NoneV) or hi is not None
                    if lo_ok and hi_ok:
                        return NumStr(o.toks[lo:hi])
            self.diag('unknown', node, 'subscript of a digit string that is not a plain digit run')
            return self.unknown('digit-string subscript', node)
        return Evaluator.getitem(self, o, idx, node)

    # ---- concatenation
    def binop(self, op, a, b, node):
        if isinstance(op, ast.Add) and (isinstance(a, NumStr) or isinstance(b, NumStr)) and isinstance(a, (NumStr, Str)) and isinstance(b, (NumStr, Str)):
            ta = a.toks if isinstance(a, NumStr) else [('lit', a.s)]
            tb = b.toks if isinstance(b, NumStr) else [('lit', b.s)]
            return self.norm(NumStr(ta + tb))
        if isinstance(op, (ast.Sub, ast.Div, ast.Mult)) and (isinstance(a, (NumStr, Str)) or isinstance(b, (NumStr, Str))) \
                and not (isinstance(op, ast.Mult) and (isinstance(a, Rat) or isinstance(b, Rat))):
            self.string_problems.append(('str-arith', node, 'operator %s applied to a string (TypeError)' % type(op).__name__))
            return self.unknown('string arithmetic', node)
        return Evaluator.binop(self, op, a, b, node)

    # ---- parsing back
    def ext_call(self, name, args, kwargs, node):
        short = name.split('.')[-1]
        if short in ('str', 'repr') and len(args) == 1 and isinstance(args[0], Rat) and args[0].as_fraction() is None:
            return NumStr([('repr', args[0])])
        if short in ('float', 'int', 'len') and len(args) == 1 and isinstance(args[0], NumStr):
            s = args[0]
            if short == 'len':
                if all(t[0] == 'dig' for t in s.toks):
                    return C(len(s.toks))
                return self.unknown('length of a digit string', node)
            v = self.value_of(s, node, integer=(short == 'int'))
            if v is not None:
                return v
            return self.unknown('value of digit string %r' % s, node)
        return Evaluator.ext_call(self, name, args, kwargs, node)

    def value_of(self, s, node, integer=False):
        toks = s.toks
        for t in toks:
            if t[0] == 'pad':
                self.string_problems.append(('blank', node, 'a blank-padded number (format %s) is embedded in the digit string %r: blanks inside a number' % (t[2], s)))
                return None
            if t[0] == 'lit':
                self.string_problems.append(('literal', node, 'non-digit characters %r inside the digit string %r' % (t[1], s)))
                return None
        points = [i for i, t in enumerate(toks) if t[0] == 'dot' or (t[0] == 'fix' and t[4])]
        if len(points) > 1:
            self.string_problems.append(('two-points', node, 'two decimal points in the digit string %r' % s))
            return None
        if integer and points:
            self.string_problems.append(('int-of-decimal', node, 'int() of a string with a decimal point: %r' % s))
            return None
        # integer part: tokens before the dot token (or the whole string)
        dot = next((i for i, t in enumerate(toks) if t[0] == 'dot'), None)
        ipart = toks if dot is None else toks[:dot]
        fpart = [] if dot is None else toks[dot + 1:]
        val = C(0)
        # integer part, right to left
        scale = 0          # power of ten of the current position
        frac_from_fix = None
        for t in reversed(ipart):
            if t[0] == 'dig':
                val = val + t[1] * C(10 ** scale)
                scale += 1
            elif t[0] == 'int':
                val = val + t[1] * C(10 ** scale)
                if t is not ipart[0]:
                    return None
                scale = None
            elif t[0] == 'sint':
                if len(ipart) != 1:
                    return None
                val = fint(t[1], t[2])
            elif t[0] == 'fix':
                if t[4]:
                    # a fixed-point piece carrying the point itself: only as the last token of the string
                    if t is not toks[-1] or dot is not None:
                        return None
                    val = val + t[1]
                    scale = t[2]
                else:
                    if t[3] is None:
                        return None
                    val = val + t[1] * C(10 ** (scale + 0)) if t[3] == 0 else None
                    if val is None:
                        return None
                    scale += t[2]
            else:
                return None
        # fractional part, left to right
        off = 0
        for n, t in enumerate(fpart):
            if off is None:
                return None            # something follows a piece of unknown length
            if t[0] == 'dig':
                off += 1
                val = val + t[1] / C(10 ** off)
            elif t[0] == 'fix' and not t[4]:
                val = val + t[1] / C(10 ** (off + t[2]))
                off = off + t[2] + t[3] if t[3] is not None else None
            else:
                return None
        return val
