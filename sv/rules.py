"""Generic structural rules: R-THREAD, R-CONST, R-OPTNUM, R-DEFASSIGN (see DESIGN.md section 3)."""
import ast
from .model import Func, Class, ModuleConst, calls_in, stmt_text, dotted, AnalysisError
from .resolve import Resolver, names_in, self_attrs_in

ROLE_CLASSES = {'Ellipsoid': 'ellipsoid', 'Projection': 'projection'}
HEMI_STRINGS = ('south', 'north')


def where(func_or_mod, node):
    m = func_or_mod.module if isinstance(func_or_mod, Func) else func_or_mod
    return '%s:%d' % (m.relpath, getattr(node, 'lineno', 0))


class Roles(object):
    """role inference for parameters, class attributes and module constants."""

    def __init__(self, repo, resolver=None):
        self.repo = repo
        self.rs = resolver or Resolver(repo)
        self.class_attrs = {}     # role -> set of attribute names defined by the role class's __init__
        for m in repo.modules.values():
            for c in m.classes.values():
                if c.name in ROLE_CLASSES and c.init() is not None:
                    attrs = set()
                    for n in ast.walk(c.init().node):
                        if isinstance(n, ast.Attribute) and isinstance(n.ctx, ast.Store) and \
                                isinstance(n.value, ast.Name) and n.value.id == 'self':
                            attrs.add(n.attr)
                    self.class_attrs[ROLE_CLASSES[c.name]] = attrs
        self._pcache = {}
        self._acache = {}

    def const_role(self, const):
        c = self.rs.const_class(const)
        if c is not None and c.name in ROLE_CLASSES:
            return ROLE_CLASSES[c.name]
        return None

    def default_role(self, func, node):
        if node is None:
            return None
        if isinstance(node, ast.Constant) and isinstance(node.value, str) and node.value.lower() in HEMI_STRINGS:
            return 'hemisphere'
        if isinstance(node, (ast.Name, ast.Attribute)):
            g = self.repo.resolve_expr(func.module, node)
            if isinstance(g, ModuleConst):
                return self.const_role(g)
        return None

    def param_roles(self, func):
        """{param name: role}"""
        k = id(func)
        if k in self._pcache:
            return self._pcache[k]
        out = {}
        for p in func.params:
            r = self.default_role(func, p.default)
            if r is None and p.default is None and p.kind == 'pos' and p.name not in ('self', 'cls'):
                # attribute-set typing: every attribute read on the parameter belongs to one role class
                attrs = set()
                other = False
                for n in ast.walk(func.node):
                    if isinstance(n, ast.Attribute) and isinstance(n.value, ast.Name) and n.value.id == p.name:
                        attrs.add(n.attr)
                for role, ra in self.class_attrs.items():
                    if attrs and attrs <= ra:
                        # make sure the roles are distinguishable
                        others = [x for x in self.class_attrs if x != role and attrs <= self.class_attrs[x]]
                        if not others:
                            r = role
            if r is not None:
                out[p.name] = r
        self._pcache[k] = out
        return out

    def attr_roles(self, cls):
        """{self attribute: role} from 'self.a = <role parameter>' in __init__"""
        k = id(cls)
        if k in self._acache:
            return self._acache[k]
        out = {}
        init = cls.init()
        if init is not None:
            pr = self.param_roles(init)
            for n in ast.walk(init.node):
                if isinstance(n, ast.Assign) and isinstance(n.value, ast.Name) and n.value.id in pr:
                    for t in n.targets:
                        if isinstance(t, ast.Attribute) and isinstance(t.value, ast.Name) and t.value.id == 'self':
                            out[t.attr] = pr[n.value.id]
        self._acache[k] = out
        return out

    def sources(self, func):
        """role sources of a function: {role: set of 'name' / 'self.attr'}"""
        out = {}
        f = func
        while f is not None:
            for name, role in self.param_roles(f).items():
                out.setdefault(role, set()).add(name)
            f = f.parent
        if func.cls is not None and func.name != '__init__':
            for attr, role in self.attr_roles(func.cls).items():
                out.setdefault(role, set()).add('self.' + attr)
        return out


def mentions(expr, derived):
    for n in ast.walk(expr):
        if isinstance(n, ast.Name) and n.id in derived:
            return True
        if isinstance(n, ast.Attribute) and isinstance(n.value, ast.Name) and n.value.id == 'self' \
                and ('self.' + n.attr) in derived:
            return True
    return False


def derived_names(func, seeds):
    """names data- or control-derived from the seed names ('x' or 'self.a') inside func"""
    derived = set(seeds)
    changed = True
    while changed:
        changed = False

        def visit(stmts, ctrl):
            nonlocal changed
            for st in stmts:
                if isinstance(st, (ast.FunctionDef, ast.ClassDef)):
                    continue
                if isinstance(st, ast.Assign):
                    hit = ctrl or mentions(st.value, derived)
                    if hit:
                        for t in st.targets:
                            for n in ast.walk(t):
                                if isinstance(n, ast.Name) and n.id not in derived:
                                    derived.add(n.id)
                                    changed = True
                elif isinstance(st, ast.AugAssign):
                    if (ctrl or mentions(st.value, derived)) and isinstance(st.target, ast.Name) \
                            and st.target.id not in derived:
                        derived.add(st.target.id)
                        changed = True
                elif isinstance(st, ast.If):
                    c = ctrl or mentions(st.test, derived)
                    visit(st.body, c)
                    visit(st.orelse, c)
                elif isinstance(st, (ast.For, ast.While)):
                    c = ctrl
                    if isinstance(st, ast.For) and mentions(st.iter, derived):
                        for n in ast.walk(st.target):
                            if isinstance(n, ast.Name) and n.id not in derived:
                                derived.add(n.id)
                                changed = True
                    visit(st.body, c)
                    visit(st.orelse, c)
                elif isinstance(st, ast.With):
                    visit(st.body, ctrl)
                elif isinstance(st, ast.Try):
                    visit(st.body, ctrl)
                    for h in st.handlers:
                        visit(h.body, ctrl)
                    visit(st.orelse, ctrl)
                    visit(st.finalbody, ctrl)
        visit(func.node.body, False)
    return derived


class ThreadRule(object):
    """R-THREAD + R-CONST over a set of functions."""

    def __init__(self, repo, rep, exceptions=None, info=None, prop=''):
        self.repo = repo
        self.rep = rep
        self.rs = Resolver(repo)
        self.roles = Roles(repo, self.rs)
        self.exceptions = exceptions or {}   # (caller qualname, callee name, role) -> (reason, validator or None)
        self.info = info or {}               # same key -> reason : reported as INFO only
        self.prop = prop

    def check_function(self, func, roles=None):
        rep = self.rep
        rep.analysed(func)
        src = self.roles.sources(func)
        if roles:
            src = dict((r, s) for r, s in src.items() if r in roles)
        n_sites = 0
        derived = dict((r, derived_names(func, s)) for r, s in src.items())
        ordinal = {}
        for call in calls_in(func.node):
            tgt, b = self.rs.bind(func, call)
            if b is None:
                if tgt is None or isinstance(tgt, list):
                    rep.calls_unresolved += 1
                else:
                    rep.calls_resolved += 1
                continue
            rep.calls_resolved += 1
            callee = b.callee
            croles = self.roles.param_roles(callee)
            for pname, role in croles.items():
                if role not in src:
                    continue
                n_sites += 1
                cname = callee.qualname
                ordk = (cname, pname)
                ordinal[ordk] = ordinal.get(ordk, 0) + 1
                key = 'R-THREAD::%s::%s::%s(%s)#%d' % (func.module.relpath, func.qualname, cname, pname, ordinal[ordk])
                w = where(func, call)
                ek = (func.qualname, cname, role)
                if b.star:
                    rep.undecided('R-THREAD', key, w, 'call uses */** arguments')
                    continue
                if pname in b.args:
                    e = b.args[pname]
                    if mentions(e, derived[role]):
                        rep.holds('R-THREAD', key, w, '%s=%s derives from own %s' % (pname, stmt_text(e), role))
                        continue
                    g = self.repo.resolve_expr(func, e, self.rs.locals_of(func)) if isinstance(e, (ast.Name, ast.Attribute)) else None
                    if isinstance(g, ModuleConst) and self.roles.const_role(g) == role or isinstance(e, ast.Constant):
                        msg = '%s passes the fixed value %s for %s although it has its own %s (%s)' % (
                            func.qualname, stmt_text(e), pname, role, ', '.join(sorted(src[role])))
                        self._report(ek, key, w, msg, func, call, expected='%s=<own %s>' % (pname, role), actual=stmt_text(call))
                        continue
                    other = [r for r in derived if r != role and mentions(e, derived[r])]
                    if other:
                        rep.violated('R-THREAD', key, w, '%s receives a value derived from the %s, not the %s' % (
                            pname, other[0], role), expected='%s=<own %s>' % (pname, role), actual=stmt_text(call))
                        continue
                    rep.undecided('R-THREAD', key, w, '%s=%s: cannot relate to own %s' % (pname, stmt_text(e), role))
                else:
                    dflt = b.defaulted.get(pname)
                    msg = '%s calls %s without %s: the callee falls back on its default %s, ignoring the caller\'s %s' % (
                        func.qualname, cname, pname, stmt_text(dflt) if dflt is not None else '?', ', '.join(sorted(src[role])))
                    self._report(ek, key, w, msg, func, call, expected='%s=<own %s>' % (pname, role), actual=stmt_text(call))
        return n_sites

    def _report(self, ek, key, w, msg, func, call, expected, actual):
        rep = self.rep
        if ek in self.info:
            rep.info('R-THREAD', key, w, msg + ' [information only: %s]' % self.info[ek])
            return
        if ek in self.exceptions:
            reason, validator = self.exceptions[ek]
            if validator is None or validator(func, call):
                rep.holds('R-THREAD', key, w, 'excepted: ' + reason)
                return
            msg += ' (exception "%s" no longer applies)' % reason
        rep.violated('R-THREAD', key, w, msg, expected=expected, actual=actual)

    def check_const(self, func, roles=None):
        """R-CONST: no attribute read of a module constant of a role the function has its own source for"""
        rep = self.rep
        rep.analysed(func)
        src = self.roles.sources(func)
        if roles:
            src = dict((r, s) for r, s in src.items() if r in roles)
        locs = self.rs.locals_of(func)
        n = 0
        seen = {}
        for node in ast.walk(func.node):
            if isinstance(node, ast.Attribute) and isinstance(node.value, ast.Name) and node.value.id not in locs:
                g = self.repo.resolve_global(func.module, node.value.id)
                if isinstance(g, ModuleConst):
                    role = self.roles.const_role(g)
                    if role in src:
                        txt = '%s.%s' % (node.value.id, node.attr)
                        seen[txt] = seen.get(txt, 0) + 1
                        key = 'R-CONST::%s::%s::%s#%d' % (func.module.relpath, func.qualname, txt, seen[txt])
                        rep.violated('R-CONST', key, where(func, node),
                                     '%s reads %s although it has its own %s (%s)' % (func.qualname, txt, role, ', '.join(sorted(src[role]))),
                                     expected='attribute of own %s' % role, actual=txt)
                        n += 1
        for role in src:
            key = 'R-CONST::%s::%s::%s' % (func.module.relpath, func.qualname, role)
            rep.holds('R-CONST', key + '::scan', where(func, func.node), 'scanned for reads of module-level %s constants' % role)
        return n


# ------------------------------------------------------------------------------------ R-OPTNUM
def truthiness_tests(func):
    """yield (node, name) for every use of a parameter / self attribute in boolean context."""
    out = []

    def leafs(e):
        # names used *as truth values* in expression e (which is itself in boolean context)
        if isinstance(e, ast.Name):
            out.append((e, e.id))
        elif isinstance(e, ast.Attribute) and isinstance(e.value, ast.Name) and e.value.id == 'self':
            out.append((e, 'self.' + e.attr))
        elif isinstance(e, ast.UnaryOp) and isinstance(e.op, ast.Not):
            leafs(e.operand)
        elif isinstance(e, ast.BoolOp):
            for v in e.values:
                leafs(v)
        elif isinstance(e, ast.Call) and isinstance(e.func, ast.Name) and e.func.id in ('all', 'any', 'bool') and e.args:
            a = e.args[0]
            if isinstance(a, (ast.List, ast.Tuple, ast.Set)):
                for el in a.elts:
                    leafs(el)
            elif e.func.id == 'bool':
                leafs(a)

    for n in ast.walk(func.node):
        if isinstance(n, (ast.If, ast.While, ast.IfExp)):
            leafs(n.test)
        elif isinstance(n, ast.Assert):
            leafs(n.test)
        elif isinstance(n, ast.BoolOp):
            # 'x or default' idiom outside a test
            for v in n.values[:-1]:
                leafs(v)
        elif isinstance(n, ast.comprehension):
            for c in n.ifs:
                leafs(c)
    # de-duplicate by node identity
    seen = set()
    res = []
    for node, name in out:
        if id(node) not in seen:
            seen.add(id(node))
            res.append((node, name))
    return res


def optnum_rule(rep, func, zero_valid, zero_invalid, rule='R-OPTNUM'):
    """zero_valid / zero_invalid: {name: reason}. Names are parameters or 'self.attr'."""
    rep.analysed(func)
    params = set(p.name for p in func.params)
    n = 0
    cnt = {}
    for node, name in truthiness_tests(func):
        base = name
        if not (name in params or name.startswith('self.')):
            continue
        cnt[name] = cnt.get(name, 0) + 1
        key = '%s::%s::%s::truth(%s)#%d' % (rule, func.module.relpath, func.qualname, name, cnt[name])
        w = where(func, node)
        if name in zero_valid:
            rep.violated(rule, key, w, '%s is tested by truthiness but 0 is a valid value (%s): 0 is treated as absent' % (
                name, zero_valid[name]), expected='%s is None / is not None' % name, actual='truth value of %s' % name)
        elif name in zero_invalid:
            rep.holds(rule, key, w, 'truthiness of %s accepted: %s' % (name, zero_invalid[name]))
        else:
            rep.undecided(rule, key, w, 'truthiness test of %s: not classified' % name)
        n += 1
    key = '%s::%s::%s::scan' % (rule, func.module.relpath, func.qualname)
    rep.holds(rule, key, where(func, func.node), 'scanned boolean contexts')
    return n


# ------------------------------------------------------------------------------------ R-DEFASSIGN
class _Top(object):
    pass


TOP = None  # represents "unreachable": every name is assigned


def defassign(func):
    """structured definite-assignment analysis. Returns list of (Name node) loads that may be unbound."""
    # names bound by comprehensions / generator expressions / lambdas live in a scope of their own
    inner = set()
    inner_nodes = set()
    for n in ast.walk(func.node):
        if isinstance(n, (ast.ListComp, ast.SetComp, ast.DictComp, ast.GeneratorExp)):
            own = set()
            for g in n.generators:
                for x in ast.walk(g.target):
                    if isinstance(x, ast.Name):
                        own.add(x.id)
                        inner_nodes.add(id(x))
            for x in ast.walk(n):
                if isinstance(x, ast.Name) and x.id in own:
                    inner_nodes.add(id(x))
        if isinstance(n, ast.Lambda):
            own = set(a.arg for a in n.args.args)
            for x in ast.walk(n.body):
                if isinstance(x, ast.Name) and x.id in own:
                    inner_nodes.add(id(x))
    locs = set()
    for n in ast.walk(func.node):
        if isinstance(n, ast.Name) and isinstance(n.ctx, ast.Store) and id(n) not in inner_nodes:
            locs.add(n.id)
    params = set(p.name for p in func.params)
    bad = []

    def uses(expr, defined):
        if defined is TOP:
            return
        for n in ast.walk(expr):
            if isinstance(n, ast.Name) and isinstance(n.ctx, ast.Load) and n.id in locs and n.id not in params \
                    and n.id not in defined and id(n) not in inner_nodes:
                bad.append(n)

    def targets(t, defined):
        for n in ast.walk(t):
            if isinstance(n, ast.Name) and isinstance(n.ctx, ast.Store):
                defined.add(n.id)

    def meet(a, b):
        if a is TOP:
            return b
        if b is TOP:
            return a
        return a & b

    def block(stmts, defined):
        for st in stmts:
            if defined is TOP:
                return TOP
            defined = stmt(st, defined)
        return defined

    def stmt(st, defined):
        if isinstance(st, (ast.FunctionDef, ast.ClassDef)):
            d = set(defined)
            d.add(st.name)
            return d
        if isinstance(st, ast.Assign):
            uses(st.value, defined)
            d = set(defined)
            for t in st.targets:
                # subscripts / attributes in targets are uses
                for n in ast.walk(t):
                    if isinstance(n, ast.Name) and isinstance(n.ctx, ast.Load):
                        uses(n, defined)
                targets(t, d)
            return d
        if isinstance(st, ast.AugAssign):
            uses(st.value, defined)
            if isinstance(st.target, ast.Name):
                n = ast.Name(id=st.target.id, ctx=ast.Load())
                ast.copy_location(n, st.target)
                uses(n, defined)
            else:
                uses(st.target, defined)
            d = set(defined)
            targets(st.target, d)
            return d
        if isinstance(st, ast.AnnAssign):
            d = set(defined)
            if st.value is not None:
                uses(st.value, defined)
                targets(st.target, d)
            return d
        if isinstance(st, (ast.Return,)):
            if st.value is not None:
                uses(st.value, defined)
            return TOP
        if isinstance(st, ast.Raise):
            if st.exc is not None:
                uses(st.exc, defined)
            return TOP
        if isinstance(st, (ast.Break, ast.Continue)):
            return TOP
        if isinstance(st, ast.If):
            uses(st.test, defined)
            a = block(st.body, set(defined))
            b = block(st.orelse, set(defined))
            return meet(a, b)
        if isinstance(st, ast.While):
            uses(st.test, defined)
            block(st.body, set(defined))
            const_true = isinstance(st.test, ast.Constant) and bool(st.test.value)
            if const_true:
                return set(defined)
            return block(st.orelse, set(defined)) if st.orelse else set(defined)
        if isinstance(st, ast.For):
            uses(st.iter, defined)
            d = set(defined)
            targets(st.target, d)
            block(st.body, set(d))
            return block(st.orelse, set(defined)) if st.orelse else set(defined)
        if isinstance(st, ast.With):
            d = set(defined)
            for it in st.items:
                uses(it.context_expr, defined)
                if it.optional_vars is not None:
                    targets(it.optional_vars, d)
            return block(st.body, d)
        if isinstance(st, ast.Try):
            a = block(st.body, set(defined))
            outs = []
            if a is not TOP:
                outs.append(block(st.orelse, set(a)) if st.orelse else a)
            else:
                outs.append(TOP)
            for h in st.handlers:
                d = set(defined)
                if h.name:
                    d.add(h.name)
                outs.append(block(h.body, d))
            res = TOP
            for o in outs:
                res = meet(res, o)
            if st.finalbody:
                res = block(st.finalbody, set(defined) if res is TOP else res)
            return res
        if isinstance(st, ast.Expr):
            uses(st.value, defined)
            return defined
        if isinstance(st, ast.Delete):
            d = set(defined)
            for t in st.targets:
                if isinstance(t, ast.Name):
                    d.discard(t.id)
            return d
        if isinstance(st, (ast.Import, ast.ImportFrom)):
            d = set(defined)
            for a in st.names:
                d.add((a.asname or a.name).split('.')[0])
            return d
        if isinstance(st, (ast.Pass, ast.Global, ast.Nonlocal)):
            return defined
        if isinstance(st, ast.Assert):
            uses(st.test, defined)
            return defined
        # unknown statement kind: be conservative (no uses flagged, no definitions)
        return defined

    block(func.node.body, set())
    return bad


def defassign_rule(rep, func, rule='R-DEFASSIGN'):
    rep.analysed(func)
    bad = defassign(func)
    seen = {}
    for n in bad:
        seen[n.id] = seen.get(n.id, 0) + 1
        if seen[n.id] > 1:
            continue
        key = '%s::%s::%s::%s' % (rule, func.module.relpath, func.qualname, n.id)
        rep.violated(rule, key, where(func, n),
                     'local variable %s is read on a path that never assigns it (UnboundLocalError)' % n.id,
                     expected='%s assigned on every path to this use' % n.id, actual='a path reaches line %d without assigning it' % n.lineno)
    key = '%s::%s::%s::scan' % (rule, func.module.relpath, func.qualname)
    if not bad:
        rep.holds(rule, key, where(func, func.node), 'every local is assigned on all paths to its uses')
    return len(seen)
