"""E6 - verdict collection, evidence files, known findings, exit codes."""
import json
import os
import sys
import time

VERIF = os.path.dirname(os.path.dirname(os.path.abspath(__file__)))
HOLDS, VIOLATED, SUBTOL, UNDECIDED, INFO = 'HOLDS', 'VIOLATED', 'SUBTOL', 'UNDECIDED', 'INFO'


class Instance(object):
    __slots__ = ('rule', 'key', 'where', 'verdict', 'msg', 'expected', 'actual', 'path', 'work')

    def __init__(self, rule, key, where, verdict, msg='', expected=None, actual=None, path=None, work=True):
        self.rule = rule
        self.key = key
        self.where = where
        self.verdict = verdict
        self.msg = msg
        self.expected = expected
        self.actual = actual
        self.path = path
        self.work = work

    def as_dict(self):
        d = {'rule': self.rule, 'key': self.key, 'where': self.where, 'verdict': self.verdict}
        if self.msg:
            d['msg'] = self.msg
        if self.expected is not None:
            d['expected'] = _short(self.expected)
        if self.actual is not None:
            d['actual'] = _short(self.actual)
        if self.path:
            d['path'] = self.path
        return d


def _short(x, n=600):
    s = x if isinstance(x, str) else repr(x)
    return s if len(s) <= n else s[:n] + '...<%d chars>' % len(s)


class Reporter(object):
    def __init__(self, prop, tier='quick', seed=0, quiet=False):
        self.prop = prop
        self.tier = tier
        self.seed = seed
        self.quiet = quiet
        self.instances = []
        self.floors = {}
        self.t0 = time.time()
        self.functions_analysed = set()
        self.calls_resolved = 0
        self.calls_unresolved = 0
        self.assumptions = []
        self.trusted = []
        self.notes = []
        self.controls = []   # (name, fired?)
        self.extra = {}

    # -------------------------------------------------------------- recording
    def add(self, rule, key, where, verdict, msg='', expected=None, actual=None, path=None, work=True):
        inst = Instance(rule, key, where, verdict, msg, expected, actual, path, work)
        self.instances.append(inst)
        return inst

    def holds(self, rule, key, where, msg='', **kw):
        return self.add(rule, key, where, HOLDS, msg, **kw)

    def violated(self, rule, key, where, msg='', **kw):
        return self.add(rule, key, where, VIOLATED, msg, **kw)

    def undecided(self, rule, key, where, msg='', **kw):
        return self.add(rule, key, where, UNDECIDED, msg, **kw)

    def subtol(self, rule, key, where, msg='', **kw):
        return self.add(rule, key, where, SUBTOL, msg, **kw)

    def info(self, rule, key, where, msg='', **kw):
        kw.setdefault('work', False)
        return self.add(rule, key, where, INFO, msg, **kw)

    def floor(self, rule, n, what=''):
        """rule must have produced at least n decided-or-undecided instances"""
        self.floors[rule] = (n, what)

    def analysed(self, func):
        self.functions_analysed.add(getattr(func, 'key', str(func)))

    def assume(self, text):
        if text not in self.assumptions:
            self.assumptions.append(text)

    def trust(self, text):
        if text not in self.trusted:
            self.trusted.append(text)

    def count(self, rule=None, verdicts=None):
        return sum(1 for i in self.instances
                   if (rule is None or i.rule == rule) and (verdicts is None or i.verdict in verdicts))


def load_known():
    p = os.path.join(VERIF, 'known_findings.json')
    if not os.path.exists(p):
        return {'open': [], 'fixed': []}
    with open(p) as f:
        return json.load(f)


def finish(rep, meta, write=True, evidence_dir=None):
    """print verdicts, write evidence, return exit code. meta: dict(level, explanation, rule_text, checker_cmd)"""
    from .model import AnalysisError
    out = sys.stdout
    # floors
    open_now = set(k['key'] for k in load_known().get('open', []) if k.get('property') == rep.prop or rep.prop in k.get('properties', []))
    has_new_violation = any(i.verdict == VIOLATED and i.key not in open_now for i in rep.instances)
    for rule, (n, what) in sorted(rep.floors.items()):
        got = rep.count(rule, (HOLDS, VIOLATED, SUBTOL, UNDECIDED))
        if got < n:
            if has_new_violation:
                # a definite violation explains the missing instances (the broken construct stops the later rules): report it, not the floor
                out.write('NOTE %s instance floor missed for %s: %d < %d (%s); definite violations are reported below\n' % (rep.prop, rule, got, n, what))
                continue
            raise AnalysisError('instance floor missed for %s: %d < %d (%s)' % (rule, got, n, what))
    for name, fired in rep.controls:
        if not fired:
            raise AnalysisError('positive control %s did not fire' % name)
    known = load_known()
    open_keys = {}
    for k in known.get('open', []):
        if k.get('property') == rep.prop or rep.prop in k.get('properties', []):
            open_keys[k['key']] = k
    viol = [i for i in rep.instances if i.verdict == VIOLATED]
    new = [i for i in viol if i.key not in open_keys]
    kn = [i for i in viol if i.key in open_keys]
    und = [i for i in rep.instances if i.verdict == UNDECIDED]
    sub = [i for i in rep.instances if i.verdict == SUBTOL]
    hold = [i for i in rep.instances if i.verdict == HOLDS]
    if not rep.quiet:
        by_rule = {}
        for i in rep.instances:
            by_rule.setdefault(i.rule, {}).setdefault(i.verdict, 0)
            by_rule[i.rule][i.verdict] += 1
        out.write('== %s tier=%s: %d rule instances over %d functions\n' % (
            rep.prop, rep.tier, len(rep.instances), len(rep.functions_analysed)))
        for r in sorted(by_rule):
            out.write('   %-34s %s\n' % (r, ' '.join('%s=%d' % kv for kv in sorted(by_rule[r].items()))))
        for i in und:
            out.write('UNDECIDED %s %s at %s: %s\n' % (rep.prop, i.key, i.where, i.msg))
        for i in sub:
            out.write('SUBTOL %s %s at %s: %s\n' % (rep.prop, i.key, i.where, i.msg))
        for i in rep.instances:
            if i.verdict == INFO:
                out.write('INFO %s %s at %s: %s\n' % (rep.prop, i.key, i.where, i.msg))
        for name, fired in rep.controls:
            out.write('control %s: fired\n' % name)
    seen = set()
    for i in kn:
        if i.key in seen:
            continue
        seen.add(i.key)
        out.write('KNOWN-FINDING: property=%s %s [%s at %s]\n' % (rep.prop, open_keys[i.key].get('what', i.msg), i.key, i.where))
    ed = evidence_dir or os.path.join(VERIF, 'evidence')
    replay = None
    if new:
        for i in new:
            out.write('FINDING %s rule=%s key=%s at %s: %s\n' % (rep.prop, i.rule, i.key, i.where, i.msg))
            if i.expected is not None:
                out.write('   expected: %s\n' % _short(i.expected, 300))
            if i.actual is not None:
                out.write('   actual:   %s\n' % _short(i.actual, 300))
            if i.path:
                out.write('   path:     %s\n' % ' -> '.join(i.path))
        if write:
            os.makedirs(ed, exist_ok=True)
            replay = os.path.join(ed, '%s.replay.json' % rep.prop)
            with open(replay, 'w') as f:
                json.dump({'property': rep.prop, 'tier': rep.tier, 'repo': os.environ.get('VERIF_REPO', '/repo'),
                           'violations': [i.as_dict() for i in new]}, f, indent=1)
        out.write('VIOLATION property=%s replay=%s\n' % (rep.prop, replay or '<none>'))
    wall = time.time() - rep.t0
    # evidence
    work = [i for i in rep.instances if i.work and i.verdict in (HOLDS, VIOLATED, SUBTOL, UNDECIDED)]
    distinct = len(set(i.key for i in work))
    samples = []
    per_rule = {}
    for i in rep.instances:
        if i.verdict == INFO:
            continue
        c = per_rule.setdefault(i.rule, 0)
        if c < 3:
            samples.append(i.as_dict())
        per_rule[i.rule] = c + 1
    obligations = len(work)
    discharged = len([i for i in work if i.verdict in (HOLDS, SUBTOL)]) + len([i for i in work if i.verdict == VIOLATED and i.key in open_keys])
    cov = {
        'evaluations': len(rep.instances),
        'distinct_nontrivial': distinct,
        'rule': meta.get('rule_text', ''),
        'samples': samples[:60],
        'obligations': obligations,
        'discharged': discharged,
        'undecided': len(und),
        'subtolerance': len(sub),
        'known_findings': sorted(set(i.key for i in kn)),
        'checker_cmd': meta.get('checker_cmd', './check %s --tier %s' % (rep.prop, rep.tier)),
        'trusted_base': rep.trusted,
        'explanation': meta.get('explanation', ''),
        'exhaustive': bool(meta.get('exhaustive', False)),
        'functions_analysed': sorted(rep.functions_analysed),
        'call_sites_resolved': rep.calls_resolved,
        'call_sites_unresolved': rep.calls_unresolved,
        'instances_per_rule': dict((r, rep.count(r)) for r in sorted(set(i.rule for i in rep.instances))),
        'positive_controls': [n for n, f in rep.controls],
        'notes': rep.notes,
    }
    cov.update(rep.extra)
    ev = {
        'property_id': rep.prop,
        'tier': rep.tier,
        'seed': int(rep.seed),
        'level': meta.get('level', 'other'),
        'coverage': cov,
        'assumptions': rep.assumptions,
        'wall_s': round(wall, 3),
        'violations': len(new),
    }
    if write:
        os.makedirs(ed, exist_ok=True)
        tmp = os.path.join(ed, '%s.json.tmp' % rep.prop)
        with open(tmp, 'w') as f:
            json.dump(ev, f, indent=1, sort_keys=True)
        os.replace(tmp, os.path.join(ed, '%s.json' % rep.prop))
    if not rep.quiet:
        out.write('== %s: holds=%d violated=%d (known %d) undecided=%d subtol=%d wall=%.2fs\n' % (
            rep.prop, len(hold), len(viol), len(kn), len(und), len(sub), wall))
    return 1 if new else 0
