"""Input-domain guards: every `if cond: raise` met while a function is abstractly evaluated is a predicate over the inputs.  The property
quantifies over a box of inputs (the domain); a guard that can fire for an input inside the box makes the function refuse an input the
property covers.  For conditions built from comparisons that are piecewise constant in each domain symbol the question is decided
exactly: the truth value can only change at the roots of the compared differences, so one sample per piece (and one per root) suffices."""
import itertools
from fractions import Fraction as F
from . import alg
from .alg import Rat, C
from .symval import Bool, _single_atom


def numeval(r, env):
    """Fraction value of a normal form under {atom id: Fraction}; None when a generator is neither assigned nor a modelled function"""
    if isinstance(r, Bool):
        return F(1 if r.b else 0)
    if not isinstance(r, Rat):
        return None
    ids = r.atoms(deep=False)
    sub = {}
    for i in ids:
        a = alg.TABLE.atoms[i]
        if i in env:
            sub[i] = C(env[i])
        elif a.kind == 'sym' and a.name == 'pi':
            import math
            sub[i] = C(F(math.pi))
        elif a.kind == 'sym' and a.name.endswith('semimaj'):
            # the ellipsoid of the call is not among the sampled inputs: the default one stands for it (the guards looked at do not depend
            # on which ellipsoid it is beyond the size of the numbers)
            sub[i] = C(F(6378137))
        elif a.kind == 'sym' and a.name.endswith('inversef'):
            sub[i] = C(F(298257222101, 10 ** 9))
        elif a.kind == 'fn':
            v = fn_value(a, env)
            if v is None:
                return None
            sub[i] = C(v)
        elif a.kind == 'def':
            v = numeval(alg.unfold(Rat.atom(a)), env) if hasattr(alg, 'unfold') else None
            if v is None:
                return None
            sub[i] = C(v)
        else:
            return None
    try:
        # function atoms first (their values were computed with the symbols they contain), then the symbols: a single pass would also
        # substitute the symbols INSIDE the function atoms and rebuild them as new, unvalued atoms
        fns = dict((i, v) for i, v in sub.items() if alg.TABLE.atoms[i].kind != 'sym')
        syms_ = dict((i, v) for i, v in sub.items() if alg.TABLE.atoms[i].kind == 'sym')
        r2 = alg.subst(r, fns) if fns else r
        r2 = alg.subst(r2, syms_) if syms_ else r2
        fr = r2.as_fraction()
        if fr is None:
            # sines and cosines live in the exponents of the normal form: a decimal value is good enough to tell the side of a threshold
            try:
                z = alg.evalf(r2, {})
                if abs(z.imag) <= 1e-9 * max(1.0, abs(z.real)) and z.real == z.real and abs(z.real) != float('inf'):
                    return F(z.real)
            except (alg.NotEvaluable, ZeroDivisionError, OverflowError, ValueError):
                return None
        return fr
    except ZeroDivisionError:
        return None


def fn_value(a, env):
    args = [numeval(x, env) if isinstance(x, (Rat, Bool)) else None for x in a.args]
    n = a.name
    if n == 'def' and len(args) == 1:
        return args[0]
    if n in ('lt', 'le', 'eq', 'ne', 'gt', 'ge') and len(args) == 2 and None not in args:
        l, r = args
        return F(1 if {'lt': l < r, 'le': l <= r, 'eq': l == r, 'ne': l != r, 'gt': l > r, 'ge': l >= r}[n] else 0)
    if n == 'and' and None not in args:
        return F(1 if all(args) else 0)
    if n == 'or' and None not in args:
        return F(1 if any(args) else 0)
    if n == 'not' and args and args[0] is not None:
        return F(0 if args[0] else 1)
    if n == 'truthy' and args and args[0] is not None:
        return F(1 if args[0] else 0)
    if n == 'ite' and len(args) == 3 and args[0] is not None:
        return args[1] if args[0] else args[2]
    if n == 'abs' and args and args[0] is not None:
        return abs(args[0])
    if n == 'int' and args and args[0] is not None:
        return F(int(args[0]))
    if n == 'nearest' and args and args[0] is not None:
        return F(round(args[0]))
    if n in ('atan', 'sin', 'cos', 'tan', 'sqrt', 'asin', 'acos', 'exp', 'log') and len(args) == 1 and args[0] is not None:
        # a decimal approximation: good enough to tell on which side of a threshold a sample lies (the samples are not ON thresholds of
        # transcendental forms - those are not among the critical values)
        import math
        try:
            return F(getattr(math, n)(float(args[0])))
        except (ValueError, OverflowError):
            return None
    if n == 'atan2' and len(args) == 2 and None not in args:
        import math
        return F(math.atan2(float(args[0]), float(args[1])))
    if n == 'pow' and len(args) == 2 and None not in args:
        try:
            return F(float(args[0]) ** float(args[1]))
        except (ValueError, OverflowError, ZeroDivisionError, TypeError):
            return None
    if n == 'floordiv' and len(args) == 2 and None not in args and args[1] != 0:
        return F(args[0] // args[1])
    if n == 'mod' and len(args) == 2 and None not in args and args[1] != 0:
        return args[0] % args[1]
    return None


def critical_values(cond, sid):
    """values of the symbol where some comparison inside cond can change its truth value (roots of affine differences, also through abs and int)"""
    out = set()
    seen = set()

    def walk(r):
        if not isinstance(r, Rat):
            return
        for i in r.atoms(deep=False):
            if i in seen:
                continue
            seen.add(i)
            a = alg.TABLE.atoms[i]
            if a.kind != 'fn':
                continue
            if a.name in ('lt', 'le', 'eq', 'ne', 'gt', 'ge') and len(a.args) == 2 and all(isinstance(x, Rat) for x in a.args):
                d = a.args[0] - a.args[1]
                roots(d)
            for x in a.args:
                walk(x)

    def roots(d):
        # d = p*s + q with constants p, q: root -q/p; through abs(s): +-; through int(s): the integer steps are handled by the caller's grid
        s = Rat.atom(alg.TABLE.atoms[sid])
        for inner in (s, alg.fabs(s)):
            ids = list(inner.atoms(deep=False))
            if len(ids) != 1 or ids[0] not in d.atoms(deep=False):
                continue
            p = alg.diff(d, ids[0])
            pf = p.as_fraction()
            if pf is None or pf == 0:
                continue
            q = (d - p * inner).as_fraction()
            if q is None:
                continue
            t = -q / pf
            out.add(t)
            out.add(-t)
    walk(cond)
    return out


def decide_guard(cond, domain, integer=(), constraint=None, extra_points=None):
    """domain: {symbol name: (lo, hi)} closed box.  Returns ('fires', witness dict) if the guard is true somewhere in the box,
    ('never', None) if it is false on every sample of the piecewise-constant decomposition, ('unknown', reason) otherwise."""
    if isinstance(cond, Bool):
        return ('fires', {}) if cond.b else ('never', None)
    if not isinstance(cond, Rat):
        return 'unknown', 'condition is not a normal form'
    syms = {}
    for name in domain:
        a = alg.TABLE.syms.get(name)
        if a is not None and a.id in cond.atoms(deep=True):
            syms[name] = a.id
    # every free symbol of the condition must be a domain symbol
    for i in cond.atoms(deep=True):
        a = alg.TABLE.atoms[i]
        if a.kind == 'sym' and a.name not in domain and a.name != 'pi':
            return 'unknown', 'depends on %s, which has no domain' % a.name
        if a.kind == 'unk':
            return 'unknown', 'depends on a value the evaluator does not model'
    if not syms:
        v = numeval(cond, {})
        if v is None:
            return 'unknown', 'cannot be evaluated'
        return ('fires', {}) if v else ('never', None)
    grids = {}
    for name, sid in syms.items():
        lo, hi = [F(x) for x in domain[name]]
        crit = sorted(set(t for t in critical_values(cond, sid) if lo <= t <= hi) | {lo, hi})
        pts = []
        for k, t in enumerate(crit):
            pts.append(t)
            if k + 1 < len(crit):
                pts.append((t + crit[k + 1]) / 2)
        if len(crit) <= 3:
            # no threshold of the condition is affine in this symbol (it enters through sines, roots, ...): quarter points as well
            pts = sorted(set(pts) | set((pts[k_] + pts[k_ + 1]) / 2 for k_ in range(len(pts) - 1)))
        if extra_points and name in extra_points:
            pts = sorted(set(pts) | set(F(x) for x in extra_points[name] if lo <= F(x) <= hi))
        if name in integer:
            pts = sorted(set(F(int(p)) for p in pts if lo <= int(p) <= hi) | set(F(int(p) + 1) for p in pts if lo <= int(p) + 1 <= hi))
        grids[name] = pts
    names = sorted(grids)
    total = 1
    for n in names:
        total *= len(grids[n])
    if total > 20000:
        return 'unknown', 'too many pieces (%d)' % total
    # interior points first: a witness in the middle of the domain says more than one at a pole or at an end of a range (where the decimal
    # evaluation of a form may itself be ill-conditioned)
    for n in names:
        lo_, hi_ = [F(x) for x in domain[n]]
        grids[n] = [p for p in grids[n] if p not in (lo_, hi_)] + [p for p in grids[n] if p in (lo_, hi_)]
    for combo in itertools.product(*[grids[n] for n in names]):
        if constraint is not None and not constraint(dict(zip(names, combo))):
            # the box is the hull of the domain; the relation between its symbols (an explicit zone near the longitude) cuts it down
            continue
        env = dict((syms[n], v) for n, v in zip(names, combo))
        v = numeval(cond, env)
        if v is None:
            return 'unknown', 'condition not evaluable at a sample'
        if v:
            return 'fires', dict(zip(names, combo))
    return 'never', None


def guard_rule(rep, rule, func, raise_conds, domain, what, where_fn, integer=(), own_only=True, skip=None, suffix='', constraint=None, extra_points=None):
    """one instance per raising test of `func` (and of the functions it inlines when own_only is False)"""
    n = 0
    seen = {}
    for q, cond, node in raise_conds:
        if own_only and q != func.qualname:
            continue
        if skip is not None and skip(q, cond, node):
            continue
        n += 1
        from .model import stmt_text
        txt = stmt_text(node.test)[:60]
        seen[txt] = seen.get(txt, 0) + 1
        key = '%s::%s::%s::raise-if(%s)#%d%s' % (rule, func.module.relpath, func.qualname, txt, seen[txt], suffix)
        verdict, info = decide_guard(cond, domain, integer, constraint, extra_points)
        w = where_fn(node)
        if verdict == 'never':
            rep.holds(rule, key, w, 'this test never fires inside %s' % what)
        elif verdict == 'fires':
            wit = ', '.join('%s = %s' % (k, float(v) if v.denominator != 1 else int(v)) for k, v in sorted(info.items()))
            rep.violated(rule, key, w, '%s raises for %s, an input inside %s: `if %s: raise`' % (func.qualname, wit or 'every input', what, stmt_text(node.test)[:100]),
                         expected='no exception inside the domain', actual='raises at ' + (wit or 'any input'))
        else:
            rep.undecided(rule, key, w, 'cannot decide whether `%s` can fire inside the domain: %s' % (stmt_text(node.test)[:80], info))
    return n


def rejects_outside(rep, rule, func, raise_conds, domain, closed, where_fn, what):
    """for every symbol in `closed` (symbol -> margin): just outside its interval some raising test of the function fires"""
    conds = [c for q, c, n in raise_conds if q == func.qualname]
    for name, margin in sorted(closed.items()):
        a = alg.TABLE.syms.get(name)
        key = '%s::%s::%s::rejects-outside(%s)' % (rule, func.module.relpath, func.qualname, name)
        if a is None:
            rep.undecided(rule, key, where_fn(func.node), 'no symbol %s' % name)
            continue
        lo, hi = [F(x) for x in domain[name]]
        bad = None
        unk = False
        for v in (lo - F(margin), hi + F(margin), lo - 1000 * F(margin) - 1, hi + 1000 * F(margin) + 1):
            env = {}
            for other, (olo, ohi) in domain.items():
                b = alg.TABLE.syms.get(other)
                if b is not None:
                    env[b.id] = (F(olo) + F(ohi)) / 2
            env[a.id] = v
            vals = [numeval(c, env) if not isinstance(c, Bool) else F(1 if c.b else 0) for c in conds]
            if any(x for x in vals if x is not None):
                continue
            if any(x is None for x in vals):
                unk = True
                continue
            bad = v
            break
        if bad is not None:
            rep.violated(rule, key, where_fn(func.node), '%s = %s lies outside %s but no test of %s rejects it: the result there is not specified' % (
                name, float(bad), what, func.qualname), expected='an exception outside [%s, %s]' % (lo, hi), actual='accepted')
        elif unk:
            rep.undecided(rule, key, where_fn(func.node), 'a raising test could not be evaluated outside the domain of %s' % name)
        else:
            rep.holds(rule, key, where_fn(func.node), 'values of %s just outside and far outside [%s, %s] are rejected' % (name, lo, hi))
