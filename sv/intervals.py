"""A small forward interval analysis over the statements of one function (closed real intervals, path-refined by comparisons of a name with a
constant).  Written for range obligations of the kind "the returned longitude lies in [-180, 180]": the value is a sum of a table quantity
(central meridian of a zone) and a bounded transcendental (degrees(atan(..))), possibly folded back by `if x > 180: x -= 360` or
`(x + 180) % 360 - 180`.  Unknown values are None (top); a None result makes the obligation undecided, never silently true."""
import ast
import math

INF = float('inf')
TOP = None


def join(a, b):
    if a is TOP or b is TOP:
        return TOP
    return (min(a[0], b[0]), max(a[1], b[1]))


def _mul(a, b):
    ps = [a[0] * b[0], a[0] * b[1], a[1] * b[0], a[1] * b[1]]
    ps = [0.0 if (isinstance(p, float) and math.isnan(p)) else p for p in ps]
    return (min(ps), max(ps))


class Interp(object):
    """attrs: {('prj', 'zonewidth'): (6, 6), ...}; names: {'zone': (1, 60)}; tests: {'prj == isg': False} decided tests by source text"""

    def __init__(self, names, attrs=None, tests=None):
        self.env = dict(names)
        self.attrs = dict(attrs or {})
        self.tests = dict(tests or {})
        self.returns = []           # list of the evaluated return values (tuple of intervals or an interval)
        self.unsupported = []

    # ------------------------------------------------------------------ expressions
    def ev(self, e, env):
        if isinstance(e, ast.Constant) and isinstance(e.value, (int, float)) and not isinstance(e.value, bool):
            return (e.value, e.value)
        if isinstance(e, ast.Name):
            return env.get(e.id, TOP)
        if isinstance(e, ast.Attribute) and isinstance(e.value, ast.Name):
            return self.attrs.get((e.value.id, e.attr), TOP)
        if isinstance(e, ast.Subscript) and isinstance(e.value, ast.Name) and isinstance(e.slice, ast.Constant):
            # an entry of a module-level table of constants: proj[5]
            return self.attrs.get((e.value.id, e.slice.value), TOP)
        if isinstance(e, ast.UnaryOp) and isinstance(e.op, (ast.USub, ast.UAdd)):
            v = self.ev(e.operand, env)
            if v is TOP:
                return TOP
            return (-v[1], -v[0]) if isinstance(e.op, ast.USub) else v
        if isinstance(e, ast.BinOp):
            a, b = self.ev(e.left, env), self.ev(e.right, env)
            if a is TOP or b is TOP:
                # x % m is bounded whatever x is
                if isinstance(e.op, ast.Mod) and b is not TOP and b[0] == b[1] and b[0] > 0:
                    return (0, b[0])
                return TOP
            if isinstance(e.op, ast.Add):
                return (a[0] + b[0], a[1] + b[1])
            if isinstance(e.op, ast.Sub):
                return (a[0] - b[1], a[1] - b[0])
            if isinstance(e.op, ast.Mult):
                return _mul(a, b)
            if isinstance(e.op, ast.Div):
                if b[0] <= 0 <= b[1]:
                    return TOP
                return _mul(a, (1.0 / b[1], 1.0 / b[0]))
            if isinstance(e.op, ast.Mod) and b[0] == b[1] and b[0] > 0:
                m = b[0]
                if a[1] - a[0] < m and math.floor(a[0] / m) == math.floor(a[1] / m):
                    k = math.floor(a[0] / m)
                    return (a[0] - k * m, a[1] - k * m)
                return (0, m)
            return TOP
        if isinstance(e, ast.IfExp):
            t = self.test(e.test, env)
            if t is True:
                return self.ev(e.body, env)
            if t is False:
                return self.ev(e.orelse, env)
            ea, eb = self.refine(e.test, env, True), self.refine(e.test, env, False)
            va = self.ev(e.body, ea) if ea is not None else None
            vb = self.ev(e.orelse, eb) if eb is not None else None
            if ea is None:
                return vb
            if eb is None:
                return va
            return join(va, vb)
        if isinstance(e, ast.Call):
            nm = e.func.id if isinstance(e.func, ast.Name) else (e.func.attr if isinstance(e.func, ast.Attribute) else None)
            args = e.args
            fdef = getattr(self, 'funcs', {}).get(nm) if isinstance(e.func, ast.Name) else None
            if fdef is not None and getattr(self, '_depth', 0) < 3 and not any(isinstance(a_, ast.Starred) for a_ in args):
                # a helper of the same module: its return value over the intervals of the arguments (a pure function of them is assumed -
                # the callers of this analysis are conversion routines whose helpers are)
                prm = [a_.arg for a_ in fdef.args.args]
                env2 = {}
                attrs2 = dict(self.attrs)
                given = list(zip(prm, args)) + [(k_.arg, k_.value) for k_ in e.keywords if k_.arg in prm]
                for pn_, ae_ in given:
                    env2[pn_] = self.ev(ae_, env)
                    if isinstance(ae_, ast.Name) and ae_.id != pn_:
                        for (on_, at_), v_ in list(self.attrs.items()):
                            if on_ == ae_.id:
                                attrs2[(pn_, at_)] = v_
                if all(p_ in env2 for p_ in prm[:len(prm) - len(fdef.args.defaults)]):
                    for p_, d_ in zip(prm[len(prm) - len(fdef.args.defaults):], fdef.args.defaults):
                        if p_ not in env2:
                            env2[p_] = self.ev(d_, env)
                            if isinstance(d_, ast.Name):
                                for (on_, at_), v_ in list(self.attrs.items()):
                                    if on_ == d_.id:
                                        attrs2[(p_, at_)] = v_
                    sub = Interp({}, attrs=attrs2, tests=self.tests)
                    sub.funcs = getattr(self, 'funcs', {})
                    sub._depth = getattr(self, '_depth', 0) + 1
                    sub.run(fdef.body, env2)
                    vals = [v_ for st_, v_ in sub.returns]
                    if vals and not sub.unsupported and all(v_ is not TOP and not isinstance(v_, tuple) or (isinstance(v_, tuple) and len(v_) == 2 and all(isinstance(x_, (int, float)) for x_ in v_)) for v_ in vals):
                        out_ = vals[0]
                        for v_ in vals[1:]:
                            out_ = join(out_, v_)
                        return out_
                return TOP
            if nm in ('max', 'min') and len(args) == 2 and not e.keywords:
                # a clamp bounds even an unknown value on one side
                a_, b_ = self.ev(args[0], env), self.ev(args[1], env)
                a_ = (-INF, INF) if a_ is TOP else a_
                b_ = (-INF, INF) if b_ is TOP else b_
                r_ = (max(a_[0], b_[0]), max(a_[1], b_[1])) if nm == 'max' else (min(a_[0], b_[0]), min(a_[1], b_[1]))
                return TOP if r_ == (-INF, INF) else r_
            if nm in ('float', 'fabs', 'abs', 'degrees', 'radians', 'round', 'int', 'floor', 'atan', 'atan2', 'sin', 'cos', 'asin', 'acos', 'sqrt', 'fmod', 'remainder') and args:
                if nm == 'atan':
                    return (-math.pi / 2, math.pi / 2)
                if nm == 'atan2':
                    return (-math.pi, math.pi)
                if nm in ('sin', 'cos'):
                    return (-1.0, 1.0)
                if nm == 'asin':
                    return (-math.pi / 2, math.pi / 2)
                if nm == 'acos':
                    return (0.0, math.pi)
                # a concrete digit-string idiom on a point value: int(str(zone)[:2])
                if nm == 'int' and len(args) == 1:
                    s = self.text_of(args[0], env)
                    if s is not None:
                        try:
                            return (int(s), int(s))
                        except ValueError:
                            return TOP
                v = self.ev(args[0], env)
                if nm in ('fmod', 'remainder') and len(args) == 2:
                    m = self.ev(args[1], env)
                    if m is not TOP and m[0] == m[1] and m[0] > 0:
                        return (-m[0], m[0]) if nm == 'fmod' else (-m[0] / 2.0, m[0] / 2.0)
                    return TOP
                if v is TOP:
                    return TOP
                if nm in ('float', 'round'):
                    return v            # rounding is monotone and keeps representable end points
                if nm in ('abs', 'fabs'):
                    if v[0] >= 0:
                        return v
                    if v[1] <= 0:
                        return (-v[1], -v[0])
                    return (0, max(-v[0], v[1]))
                if nm == 'degrees':
                    return (math.degrees(v[0]), math.degrees(v[1]))
                if nm == 'radians':
                    return (math.radians(v[0]), math.radians(v[1]))
                if nm in ('int', 'floor'):
                    return (math.floor(v[0]) if v[0] > -INF else v[0], math.ceil(v[1]) if v[1] < INF else v[1])
                if nm == 'sqrt':
                    return (math.sqrt(max(v[0], 0)), math.sqrt(max(v[1], 0)))
            return TOP
        return TOP

    def text_of(self, e, env):
        """str(x)[a:b] / str(x)[k] for a point integer x"""
        if isinstance(e, ast.Subscript) and isinstance(e.value, ast.Call) and getattr(e.value.func, 'id', '') == 'str' and e.value.args:
            v = self.ev(e.value.args[0], env)
            if v is TOP or v[0] != v[1] or v[0] != int(v[0]):
                return None
            s = str(int(v[0]))
            sl = e.slice
            try:
                if isinstance(sl, ast.Slice):
                    lo = sl.lower.value if sl.lower is not None else None
                    hi = sl.upper.value if sl.upper is not None else None
                    return s[lo:hi]
                if isinstance(sl, ast.Constant):
                    return s[sl.value]
            except (AttributeError, IndexError):
                return None
        return None

    # ------------------------------------------------------------------ tests
    def _cmp(self, t, env):
        """(name, op, const) for `name op const` / `const op name`, else None"""
        if isinstance(t, ast.Compare) and len(t.ops) == 1:
            l, r = t.left, t.comparators[0]
            flip = {ast.Lt: ast.Gt, ast.Gt: ast.Lt, ast.LtE: ast.GtE, ast.GtE: ast.LtE, ast.Eq: ast.Eq, ast.NotEq: ast.NotEq}
            if isinstance(l, ast.Name):
                c = self.ev(r, env)
                if c is not TOP and c[0] == c[1] and type(t.ops[0]) in flip:
                    return l.id, type(t.ops[0]), c[0]
            if isinstance(r, ast.Name):
                c = self.ev(l, env)
                if c is not TOP and c[0] == c[1] and type(t.ops[0]) in flip:
                    return r.id, flip[type(t.ops[0])], c[0]
        return None

    def test(self, t, env):
        """True / False when decided, else None"""
        txt = ast.unparse(t)
        if txt in self.tests:
            return self.tests[txt]
        if isinstance(t, ast.UnaryOp) and isinstance(t.op, ast.Not):
            v = self.test(t.operand, env)
            return None if v is None else not v
        if isinstance(t, ast.BoolOp):
            vs = [self.test(x, env) for x in t.values]
            if isinstance(t.op, ast.And):
                return False if any(v is False for v in vs) else (True if all(v is True for v in vs) else None)
            return True if any(v is True for v in vs) else (False if all(v is False for v in vs) else None)
        c = self._cmp(t, env)
        if c is not None:
            nm, op, k = c
            v = env.get(nm, TOP)
            if v is TOP:
                return None
            lo, hi = v
            if op is ast.Gt:
                return True if lo > k else (False if hi <= k else None)
            if op is ast.GtE:
                return True if lo >= k else (False if hi < k else None)
            if op is ast.Lt:
                return True if hi < k else (False if lo >= k else None)
            if op is ast.LtE:
                return True if hi <= k else (False if lo > k else None)
            if op is ast.Eq:
                return True if lo == hi == k else (False if (k < lo or k > hi) else None)
            if op is ast.NotEq:
                return False if lo == hi == k else (True if (k < lo or k > hi) else None)
        return None

    def refine(self, t, env, outcome):
        """environment in which the test has the given outcome (closed approximation); None when impossible"""
        d = self.test(t, env)
        if d is not None:
            return dict(env) if d == outcome else None
        if isinstance(t, ast.UnaryOp) and isinstance(t.op, ast.Not):
            return self.refine(t.operand, env, not outcome)
        if isinstance(t, ast.BoolOp):
            conj = isinstance(t.op, ast.And)
            if conj == outcome:
                # all operands have the outcome
                e2 = dict(env)
                for x in t.values:
                    e2 = self.refine(x, e2, outcome)
                    if e2 is None:
                        return None
                return e2
            return dict(env)
        c = self._cmp(t, env)
        if c is None:
            return dict(env)
        nm, op, k = c
        v = env.get(nm, TOP)
        if v is TOP:
            v = (-INF, INF)
        lo, hi = v
        if not outcome:
            op = {ast.Gt: ast.LtE, ast.GtE: ast.Lt, ast.Lt: ast.GtE, ast.LtE: ast.Gt, ast.Eq: ast.NotEq, ast.NotEq: ast.Eq}[op]
        if op in (ast.Gt, ast.GtE):
            lo = max(lo, k)
        elif op in (ast.Lt, ast.LtE):
            hi = min(hi, k)
        elif op is ast.Eq:
            lo, hi = max(lo, k), min(hi, k)
        if lo > hi:
            return None
        e2 = dict(env)
        e2[nm] = (lo, hi)
        return e2

    # ------------------------------------------------------------------ statements
    def run(self, stmts, env):
        """returns the environment after the statements, or None when every path has left (return / raise)"""
        for st in stmts:
            if env is None:
                return None
            if isinstance(st, (ast.FunctionDef, ast.Import, ast.ImportFrom, ast.Pass, ast.Global)):
                continue
            if isinstance(st, ast.Expr):
                continue
            if isinstance(st, ast.Assign):
                v = self.ev(st.value, env)
                for t in st.targets:
                    if isinstance(t, ast.Name):
                        env[t.id] = v
                    elif isinstance(t, (ast.Tuple, ast.List)):
                        for x in t.elts:
                            if isinstance(x, ast.Name):
                                env[x.id] = TOP
                continue
            if isinstance(st, ast.AugAssign) and isinstance(st.target, ast.Name):
                env[st.target.id] = self.ev(ast.BinOp(left=ast.Name(id=st.target.id, ctx=ast.Load()), op=st.op, right=st.value), env)
                continue
            if isinstance(st, ast.If):
                ea, eb = self.refine(st.test, env, True), self.refine(st.test, env, False)
                ra = self.run(st.body, ea) if ea is not None else None
                rb = self.run(st.orelse, eb) if eb is not None else None
                if ra is None and rb is None:
                    env = None
                elif ra is None:
                    env = rb
                elif rb is None:
                    env = ra
                else:
                    env = dict((k, join(ra.get(k, TOP), rb.get(k, TOP))) for k in set(ra) | set(rb))
                continue
            if isinstance(st, (ast.While, ast.For)):
                # no fixpoint: everything assigned in the loop is unknown afterwards
                for n in ast.walk(st):
                    if isinstance(n, ast.Name) and isinstance(n.ctx, ast.Store):
                        env[n.id] = TOP
                continue
            if isinstance(st, ast.Raise):
                return None
            if isinstance(st, ast.Return):
                v = st.value
                if isinstance(v, ast.Tuple):
                    self.returns.append((st, tuple(self.ev(x, env) for x in v.elts)))
                elif v is not None:
                    self.returns.append((st, self.ev(v, env)))
                return None
            if isinstance(st, (ast.With, ast.Try)):
                self.unsupported.append(type(st).__name__)
                for n in ast.walk(st):
                    if isinstance(n, ast.Name) and isinstance(n.ctx, ast.Store):
                        env[n.id] = TOP
                continue
            self.unsupported.append(type(st).__name__)
        return env
