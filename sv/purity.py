"""R-PURE: interprocedural effect analysis (DESIGN.md section C09).

For every function: find stores (attribute / subscript stores, augmented assignments, del, mutating method
calls, writes to globals) and decide whether the object written is *must-fresh* in the current activation.
Summaries (mutates parameter p / mutates self / mutates module state / returns a fresh object) are
propagated over the resolved call graph to a fixed point.  Reports carry the call path from a public entry.
"""
import ast
from .model import Func, Class, Module, Ext, ModuleConst, calls_in, stmt_text, bind_call
from .resolve import Resolver

MUTATORS = {'sort', 'append', 'extend', 'insert', 'pop', 'remove', 'clear', 'reverse', 'update', 'setdefault',
            'add', 'discard', 'fill', 'resize', 'put', 'itemset', 'popitem', 'difference_update',
            'intersection_update', 'symmetric_difference_update', 'setflags', 'byteswap', 'partition',
            '__setitem__', '__delitem__', '__setattr__', '__iadd__', '__imul__', 'write', 'writelines',
            'appendleft', 'extendleft', 'rotate', 'setfield', 'swapaxes_', 'sort_values'}
# methods returning (a view of / an element of) the receiver: result is as fresh as the receiver
ALIASING_METHODS = {'transpose', 'reshape', 'ravel', 'view', 'squeeze', 'diagonal', 'swapaxes', 'get', 'values',
                    'items', 'keys', 'setdefault', '__getitem__', 'real', 'imag', 'flat', 'T'}
EXT_INPLACE_FUNCS = {'numpy.fill_diagonal': [0], 'numpy.put': [0], 'numpy.copyto': [0], 'numpy.place': [0],
                     'numpy.putmask': [0], 'random.shuffle': [0], 'numpy.random.shuffle': [0],
                     'builtins.setattr': [0], 'builtins.delattr': [0], 'heapq.heappush': [0], 'heapq.heappop': [0],
                     'heapq.heapify': [0], 'bisect.insort': [0]}
NONDETERMINISTIC = ('datetime.datetime.now', 'datetime.datetime.today', 'datetime.datetime.utcnow', 'datetime.date.today',
                    'datetime.now', 'datetime.today', 'time.time', 'time.monotonic', 'time.perf_counter', 'time.localtime', 'time.gmtime',
                    'random.', 'numpy.random.', 'os.environ', 'os.getenv', 'os.urandom', 'uuid.', 'secrets.',
                    'builtins.input', 'builtins.id', 'builtins.hash')


ONE_SHOT = ('map', 'filter', 'zip', 'iter', 'reversed', 'enumerate')


def _one_shot(e):
    if isinstance(e, ast.GeneratorExp):
        return True
    if isinstance(e, ast.Call) and isinstance(e.func, ast.Name) and e.func.id in ONE_SHOT:
        return True
    if isinstance(e, ast.Call) and isinstance(e.func, ast.Attribute) and isinstance(e.func.value, ast.Name) and e.func.value.id == 'itertools':
        return True
    return False


class Site(object):
    def __init__(self, func, node, kind, target, text):
        self.func = func
        self.node = node
        self.kind = kind          # 'param:<name>' | 'self' | 'global:<name>' | 'nondet'
        self.target = target
        self.text = text

    @property
    def where(self):
        return '%s:%d' % (self.func.module.relpath, getattr(self.node, 'lineno', 0))


def root_and_depth(expr):
    """root Name of an attribute/subscript chain and the chain as list of ('attr',name)|('sub',)"""
    chain = []
    e = expr
    while True:
        if isinstance(e, ast.Attribute):
            chain.append(('attr', e.attr))
            e = e.value
        elif isinstance(e, ast.Subscript):
            chain.append(('sub',))
            e = e.value
        elif isinstance(e, ast.Starred):
            e = e.value
        else:
            break
    chain.reverse()
    if isinstance(e, ast.Name):
        return e.id, chain, e
    return None, chain, e


class Purity(object):
    def __init__(self, repo, scope_modules, exceptions=None):
        self.repo = repo
        self.rs = Resolver(repo)
        self.scope = [repo.module(m) for m in scope_modules]
        self.exceptions = exceptions or {}   # (qualname, target text) -> reason
        self.funcs = []
        for m in self.scope:
            self.funcs.extend(m.all_functions())
        self.fkey = dict((id(f), f) for f in self.funcs)
        self.mut_params = dict((id(f), {}) for f in self.funcs)   # param name -> Site or (call, callee, pname)
        self.mut_self = dict((id(f), None) for f in self.funcs)
        self.mut_global = dict((id(f), []) for f in self.funcs)
        self.nondet = dict((id(f), []) for f in self.funcs)
        self.ret_fresh = dict((id(f), True) for f in self.funcs)
        self.direct_sites = dict((id(f), []) for f in self.funcs)
        self.callees = dict((id(f), []) for f in self.funcs)       # (call node, [Func...]) resolved repo callees
        self.class_attr_fresh = {}
        self.stats = {'stores': 0, 'fresh_stores': 0, 'calls': 0, 'resolved': 0, 'unresolved': 0, 'external': 0}
        self._assign_cache = {}
        self._operator_calls = {}
        self._op_depth = 0
        self._prepare()
        self._fixpoint()

    # ------------------------------------------------------------------ preparation
    def _prepare(self):
        for f in self.funcs:
            self._collect_assignments(f)
        for m in self.scope:
            for c in m.classes.values():
                self.class_attr_fresh[id(c)] = {}
        for f in self.funcs:
            cl = []
            for call in calls_in(f.node):
                tgt = self.rs.callee(f, call)
                self.stats['calls'] += 1
                if isinstance(tgt, Func):
                    cl.append((call, [tgt]))
                    self.stats['resolved'] += 1
                elif isinstance(tgt, Class):
                    if tgt.init() is not None:
                        cl.append((call, [tgt.init()]))
                    self.stats['resolved'] += 1
                elif isinstance(tgt, list):
                    cl.append((call, list(tgt)))
                    self.stats['resolved'] += 1
                elif isinstance(tgt, Ext):
                    self.stats['external'] += 1
                else:
                    self.stats['unresolved'] += 1
            # operator overloads: a + b, -a, a - b ... on repository classes
            for n in self._own_nodes(f):
                if isinstance(n, ast.BinOp):
                    opname = {ast.Add: '__add__', ast.Sub: '__sub__', ast.Mult: '__mul__', ast.Div: '__truediv__',
                              ast.Mod: '__mod__', ast.MatMult: '__matmul__'}.get(type(n.op))
                    if opname:
                        c = self.rs.expr_class(f, n.left) or self._guard_class(f, n.left)
                        if c is not None and opname in c.methods:
                            cl.append((n, [c.methods[opname]]))
                elif isinstance(n, ast.UnaryOp) and isinstance(n.op, ast.USub):
                    c = self.rs.expr_class(f, n.operand) or self._guard_class(f, n.operand)
                    if c is not None and '__neg__' in c.methods:
                        cl.append((n, [c.methods['__neg__']]))
            self.callees[id(f)] = cl

    def _guard_class(self, f, expr):
        """class of a parameter established by 'if type(p) != C: raise' / isinstance guards"""
        if not isinstance(expr, ast.Name):
            return None
        for n in ast.walk(f.node):
            if isinstance(n, ast.If):
                t = n.test
                if isinstance(t, ast.Compare) and len(t.ops) == 1 and isinstance(t.left, ast.Call) \
                        and isinstance(t.left.func, ast.Name) and t.left.func.id == 'type' and t.left.args \
                        and isinstance(t.left.args[0], ast.Name) and t.left.args[0].id == expr.id:
                    g = self.repo.resolve_expr(f, t.comparators[0], self.rs.locals_of(f))
                    if isinstance(g, Class):
                        return g
                if isinstance(t, ast.UnaryOp) and isinstance(t.op, ast.Not):
                    t = t.operand
                if isinstance(t, ast.Call) and isinstance(t.func, ast.Name) and t.func.id == 'isinstance' and len(t.args) == 2 \
                        and isinstance(t.args[0], ast.Name) and t.args[0].id == expr.id:
                    g = self.repo.resolve_expr(f, t.args[1], self.rs.locals_of(f))
                    if isinstance(g, Class):
                        return g
        return None

    def _own_nodes(self, f):
        out = []

        def rec(n, top):
            if isinstance(n, (ast.FunctionDef, ast.ClassDef)) and not top:
                return
            out.append(n)
            for c in ast.iter_child_nodes(n):
                rec(c, False)
        rec(f.node, True)
        return out

    def _collect_assignments(self, f):
        """name -> list of ('expr', rhs) | ('iter', iterable) | ('with', ctx) | ('unpack', rhs) | ('other',)"""
        d = {}

        def bind(t, kind, rhs):
            if isinstance(t, ast.Name):
                d.setdefault(t.id, []).append((kind, rhs))
            elif isinstance(t, (ast.Tuple, ast.List)):
                if kind == 'expr' and isinstance(rhs, (ast.Tuple, ast.List)) and len(rhs.elts) == len(t.elts):
                    for a, b in zip(t.elts, rhs.elts):
                        bind(a, 'expr', b)
                else:
                    for a in t.elts:
                        bind(a, 'unpack' if kind == 'expr' else kind, rhs)
            elif isinstance(t, ast.Starred):
                bind(t.value, 'unpack', rhs)

        for n in self._own_nodes(f):
            if isinstance(n, ast.Assign):
                for t in n.targets:
                    bind(t, 'expr', n.value)
            elif isinstance(n, ast.AnnAssign) and n.value is not None:
                bind(n.target, 'expr', n.value)
            elif isinstance(n, ast.AugAssign) and isinstance(n.target, ast.Name):
                d.setdefault(n.target.id, []).append(('aug', n.value))
            elif isinstance(n, ast.For):
                bind(n.target, 'iter', n.iter)
            elif isinstance(n, ast.With):
                for it in n.items:
                    if it.optional_vars is not None:
                        bind(it.optional_vars, 'with', it.context_expr)
            elif isinstance(n, ast.ExceptHandler) and n.name:
                d.setdefault(n.name, []).append(('other', None))
            elif isinstance(n, ast.comprehension):
                bind(n.target, 'iter', n.iter)
            elif isinstance(n, ast.NamedExpr):
                bind(n.target, 'expr', n.value)
        self._assign_cache[id(f)] = d

    # ------------------------------------------------------------------ freshness
    def name_kind(self, f, name):
        """'param' | 'self' | 'local' | 'global' | 'outer'"""
        if name in [p.name for p in f.params]:
            if f.cls is not None and f.params and f.params[0].name == name and name in ('self', 'cls'):
                return 'self'
            return 'param'
        if name in self._assign_cache[id(f)] or name in f.nested:
            return 'local'
        p = f.parent
        while p is not None:
            if name in [q.name for q in p.params] or name in self._assign_cache.get(id(p), {}):
                return 'outer'
            p = p.parent
        return 'global'

    def fresh_name(self, f, name, _seen=None):
        k = self.name_kind(f, name)
        if k == 'self':
            return f.name == '__init__' or f.name == '__new__'
        if k != 'local':
            return False
        _seen = _seen or set()
        if (id(f), name) in _seen:
            return True
        _seen = _seen | {(id(f), name)}
        for kind, rhs in self._assign_cache[id(f)].get(name, []):
            if kind == 'expr':
                if not self.fresh_expr(f, rhs, _seen):
                    return False
            elif kind == 'aug':
                continue
            elif kind == 'iter':
                if not self.fresh_elements(f, rhs, _seen):
                    return False
            elif kind == 'with':
                if not self.fresh_expr(f, rhs, _seen):
                    return False
            elif kind == 'unpack':
                if not self.fresh_expr(f, rhs, _seen):
                    return False
            else:
                return False
        return True

    def fresh_elements(self, f, it, _seen):
        """are the elements produced by iterating `it` fresh (or immutable)?"""
        if isinstance(it, ast.Call):
            tgt = self.rs.callee(f, it)
            if isinstance(tgt, Ext) and tgt.name in ('builtins.range', 'builtins.enumerate', 'builtins.zip'):
                if tgt.name == 'builtins.range':
                    return True
                return all(self.fresh_elements(f, a, _seen) for a in it.args)
            if isinstance(it.func, ast.Attribute) and it.func.attr in ALIASING_METHODS:
                return self.fresh_expr(f, it.func.value, _seen) and False   # elements of a container: unknown -> not fresh
            return self.fresh_expr(f, it, _seen)
        if isinstance(it, (ast.List, ast.Tuple, ast.Set)):
            return all(self.fresh_expr(f, e, _seen) for e in it.elts)
        if isinstance(it, ast.Name):
            # elements of a fresh local list built from fresh things: one level only
            if self.fresh_name(f, it.id, _seen):
                ok = True
                for kind, rhs in self._assign_cache[id(f)].get(it.id, []):
                    if kind == 'expr' and isinstance(rhs, (ast.List, ast.Tuple, ast.Set, ast.ListComp, ast.SetComp)):
                        if isinstance(rhs, (ast.List, ast.Tuple, ast.Set)):
                            ok = ok and all(self.fresh_expr(f, e, _seen) for e in rhs.elts)
                        else:
                            ok = ok and self.fresh_expr(f, rhs.elt, _seen)
                    elif kind == 'expr' and isinstance(rhs, ast.Call):
                        ok = ok and self.fresh_expr(f, rhs, _seen)
                    else:
                        ok = False
                return ok
            return False
        return False

    def fresh_expr(self, f, e, _seen=None):
        _seen = _seen or set()
        if isinstance(e, (ast.Constant, ast.JoinedStr, ast.Lambda, ast.Compare)):
            return True
        if isinstance(e, (ast.BinOp, ast.UnaryOp)):
            # arithmetic produces a new object - unless an operator method of a repository class hands an operand back (`return self`)
            return all(self.fresh_expr(f, a, _seen) for a in self._operator_aliases(e, f))
        if isinstance(e, ast.BoolOp):
            return all(self.fresh_expr(f, v, _seen) for v in e.values)
        if isinstance(e, ast.IfExp):
            return self.fresh_expr(f, e.body, _seen) and self.fresh_expr(f, e.orelse, _seen)
        if isinstance(e, (ast.List, ast.Tuple, ast.Set, ast.Dict, ast.ListComp, ast.SetComp, ast.DictComp, ast.GeneratorExp)):
            return True        # the container itself is new (its elements may not be)
        if isinstance(e, ast.Name):
            return self.fresh_name(f, e.id, _seen)
        if isinstance(e, ast.Starred):
            return self.fresh_expr(f, e.value, _seen)
        if isinstance(e, ast.Subscript):
            # element / view of the base object
            return self.fresh_expr(f, e.value, _seen) and self._elements_fresh(f, e.value, _seen)
        if isinstance(e, ast.Attribute):
            root, chain, base = root_and_depth(e)
            if root is not None and len(chain) == 1 and self.fresh_name(f, root, _seen):
                c = self.rs.expr_class(f, ast.Name(id=root, ctx=ast.Load()))
                if c is not None and self.attr_fresh(c, chain[0][1]):
                    return True
            g = self.repo.resolve_expr(f, e, self.rs.locals_of(f))
            if isinstance(g, Ext):
                return True    # e.g. math.pi
            return False
        if isinstance(e, ast.Call):
            tgt = self.rs.callee(f, e)
            if isinstance(tgt, Class):
                return True
            if isinstance(tgt, Func):
                return self.ret_fresh.get(id(tgt), tgt.module not in self.scope and True)
            if isinstance(tgt, list):
                return all(self.ret_fresh.get(id(t), True) for t in tgt)
            if isinstance(e.func, ast.Attribute) and not isinstance(tgt, Ext):
                if e.func.attr in ALIASING_METHODS:
                    return self.fresh_expr(f, e.func.value, _seen)
                return True    # method returning a new object (str/number/array methods): assumption A2
            if isinstance(tgt, Ext):
                if tgt.name in ('builtins.iter', 'builtins.next', 'builtins.reversed', 'builtins.max', 'builtins.min',
                                'builtins.getattr', 'builtins.vars', 'numpy.asarray', 'numpy.asanyarray', 'numpy.ravel', 'numpy.reshape',
                                'numpy.transpose', 'numpy.squeeze', 'numpy.atleast_1d', 'numpy.atleast_2d'):
                    return all(self.fresh_expr(f, a, _seen) for a in e.args)
                return True
            return tgt is None and False
        return False

    def _elements_fresh(self, f, base, _seen):
        """elements of a fresh container: fresh only for arrays / containers known to hold numbers"""
        if isinstance(base, ast.Name):
            for kind, rhs in self._assign_cache[id(f)].get(base.id, []):
                if kind == 'expr' and isinstance(rhs, ast.Call):
                    tgt = self.rs.callee(f, rhs)
                    if isinstance(tgt, Ext) and tgt.name.startswith(('numpy.', 'math.', 'builtins.')):
                        continue
                    if isinstance(tgt, (Func, Class)):
                        continue
                    if isinstance(rhs.func, ast.Attribute):
                        continue
                    return False
                if kind == 'expr' and isinstance(rhs, (ast.BinOp, ast.UnaryOp, ast.Constant)):
                    continue
                if kind == 'expr' and isinstance(rhs, (ast.List, ast.Tuple)):
                    if all(self.fresh_expr(f, x, _seen) for x in rhs.elts):
                        continue
                    return False
                if kind in ('aug',):
                    continue
                return False
            return True
        return True

    def attr_fresh(self, cls, attr):
        """is attribute `attr` of instances of cls created fresh (from no parameter) in __init__?"""
        cache = self.class_attr_fresh.setdefault(id(cls), {})
        if attr in cache:
            return cache[attr]
        cache[attr] = False
        init = cls.init()
        res = False
        if init is not None and id(init) in self._assign_cache:
            vals = []
            for n in ast.walk(init.node):
                if isinstance(n, ast.Assign):
                    for t in n.targets:
                        if isinstance(t, ast.Attribute) and isinstance(t.value, ast.Name) and t.value.id == 'self' and t.attr == attr:
                            vals.append(n.value)
            if vals:
                pnames = set(p.name for p in init.params)
                res = all(self.fresh_expr(init, v) and not (set(x.id for x in ast.walk(v) if isinstance(x, ast.Name)) & pnames
                                                            and not isinstance(v, (ast.BinOp, ast.Call, ast.Constant)))
                          for v in vals)
        cache[attr] = res
        return res

    def fresh_target_object(self, f, target):
        """For a store through `target` (Attribute/Subscript) decide the written object's status.
        returns ('fresh',) | ('param', name) | ('self',) | ('global', name) | ('unknown', text)"""
        obj = target.value if isinstance(target, (ast.Attribute, ast.Subscript)) else target
        return self.object_status(f, obj)

    def object_status(self, f, obj):
        root, chain, base = root_and_depth(obj)
        if root is None:
            if isinstance(base, ast.Call):
                return ('fresh',) if self.fresh_expr(f, base) and not chain else ('unknown', stmt_text(obj))
            return ('unknown', stmt_text(obj))
        k = self.name_kind(f, root)
        if self.fresh_expr(f, obj):
            return ('fresh',)
        if k == 'self':
            if f.name in ('__init__', '__new__') and not chain:
                return ('fresh',)
            return ('self', stmt_text(obj))
        if k == 'param':
            return ('param', root)
        if k == 'global':
            g = self.repo.resolve_global(f.module, root)
            if isinstance(g, Ext):
                return ('unknown', stmt_text(obj))
            return ('global', root)
        if k == 'outer':
            return ('param', root)
        # local that is not fresh: find what it aliases
        al = self.alias_roots(f, root)
        for kind, nm in al:
            if kind in ('param', 'self', 'global'):
                return (kind, nm)
        return ('unknown', stmt_text(obj))

    def alias_roots(self, f, name, _seen=None):
        _seen = _seen or set()
        if name in _seen:
            return []
        _seen.add(name)
        out = []
        for kind, rhs in self._assign_cache[id(f)].get(name, []):
            if rhs is None:
                continue
            for e in self._alias_exprs(rhs, f):
                root, chain, base = root_and_depth(e)
                if root is None:
                    continue
                k = self.name_kind(f, root)
                if k == 'param':
                    out.append(('param', root))
                elif k == 'self':
                    out.append(('self', stmt_text(e)))
                elif k == 'global':
                    g = self.repo.resolve_global(f.module, root)
                    if isinstance(g, ModuleConst):
                        out.append(('global', root))
                elif k == 'local':
                    out.extend(self.alias_roots(f, root, _seen))
        return out

    def _alias_exprs(self, rhs, f=None):
        """sub-expressions of rhs whose object may be (part of) the value"""
        if isinstance(rhs, (ast.Name, ast.Attribute, ast.Subscript)):
            return [rhs]
        if isinstance(rhs, ast.IfExp):
            return self._alias_exprs(rhs.body, f) + self._alias_exprs(rhs.orelse, f)
        if isinstance(rhs, ast.BoolOp):
            out = []
            for v in rhs.values:
                out += self._alias_exprs(v, f)
            return out
        if isinstance(rhs, (ast.BinOp, ast.UnaryOp)) and f is not None:
            out = []
            for a in self._operator_aliases(rhs, f):
                out += self._alias_exprs(a, f)
            return out
        if isinstance(rhs, ast.Call) and isinstance(rhs.func, ast.Attribute) and rhs.func.attr in ALIASING_METHODS:
            return self._alias_exprs(rhs.func.value, f)
        if isinstance(rhs, ast.Call) and isinstance(rhs.func, ast.Name) and rhs.func.id == 'vars' and len(rhs.args) == 1:
            # vars(x) IS x.__dict__, the live attribute namespace of x: a store into it is an attribute assignment on x
            return self._alias_exprs(rhs.args[0], f)
        if isinstance(rhs, ast.Call) and f is not None:
            # a repository function that may hand one of its parameters back: the result aliases the corresponding argument
            out = []
            tgt = self.rs.callee(f, rhs)
            if isinstance(tgt, Func) and id(tgt) in self.ret_fresh and not self.ret_fresh[id(tgt)]:
                ps = [p.name for p in tgt.params]
                back = self.returned_params(tgt)
                for i_, a in enumerate(rhs.args):
                    if i_ < len(ps) and ps[i_] in back:
                        out += self._alias_exprs(a, f)
                for kw in rhs.keywords:
                    if kw.arg in back:
                        out += self._alias_exprs(kw.value, f)
            return out
        return []

    _BINOPS = {ast.Add: 'add', ast.Sub: 'sub', ast.Mult: 'mul', ast.Div: 'truediv', ast.FloorDiv: 'floordiv', ast.Mod: 'mod', ast.Pow: 'pow',
               ast.MatMult: 'matmul'}
    _UNOPS = {ast.USub: '__neg__', ast.UAdd: '__pos__', ast.Invert: '__invert__'}

    def _operator_aliases(self, e, f):
        """operands of an operator expression that the result may BE: `a + b` runs a.__add__(b) (or b.__radd__(a)); when that method of a
        repository class can return one of its parameters, the result aliases the operand.  The operand's class is taken from a type guard
        of the function when there is one, otherwise every class of the scope defining the method is considered."""
        if self._op_depth > 6:
            return []
        self._op_depth += 1
        try:
            out = []
            if isinstance(e, ast.UnaryOp):
                meth = self._UNOPS.get(type(e.op))
                pairs = [(meth, e.operand, None)] if meth else []
            else:
                nm = self._BINOPS.get(type(e.op))
                pairs = [('__%s__' % nm, e.left, e.right), ('__r%s__' % nm, e.right, e.left)] if nm else []
            for meth, recv, other in pairs:
                cls = self._guard_class(f, recv) if isinstance(recv, ast.Name) else None
                classes = [cls] if cls is not None else [c for m_ in self.scope for c in m_.classes.values()]
                for c in classes:
                    g = c.methods.get(meth)
                    if g is None:
                        continue
                    back = self.returned_params(g)
                    ps = [p.name for p in g.params]
                    if ps and ps[0] in back:
                        out.append(recv)
                    if other is not None and len(ps) > 1 and ps[1] in back:
                        out.append(other)
            return out
        finally:
            self._op_depth -= 1

    def returned_params(self, g, _seen=None):
        """names of the parameters of g that some return statement may hand back (directly or through local aliases)"""
        _seen = _seen or set()
        if id(g) in _seen:
            return set()
        _seen.add(id(g))
        out = set()
        ps = set(p.name for p in g.params)
        for n in self._own_nodes(g):
            if isinstance(n, ast.Return) and n.value is not None:
                vals = n.value.elts if isinstance(n.value, ast.Tuple) else [n.value]
                for v in vals:
                    for e in self._alias_exprs(v, g):
                        root, chain, base = root_and_depth(e)
                        if root in ps and self.name_kind(g, root) in ('param', 'self'):
                            out.add(root)
                        elif root is not None and self.name_kind(g, root) == 'local':
                            for kind, nm in self.alias_roots(g, root):
                                if kind == 'param':
                                    out.add(nm)
        return out

    # ------------------------------------------------------------------ direct sites
    def _scan_function(self, f):
        """direct stores of f: list of (node, status, text)"""
        sites = []
        declared_global = set()
        for n in self._own_nodes(f):
            if isinstance(n, (ast.Global, ast.Nonlocal)):
                declared_global.update(n.names)
        for n in self._own_nodes(f):
            tg = []
            if isinstance(n, ast.Assign):
                for t in n.targets:
                    tg.extend(self._flatten_targets(t))
            elif isinstance(n, ast.AugAssign):
                tg.append(n.target)
            elif isinstance(n, ast.AnnAssign) and n.value is not None:
                tg.append(n.target)
            elif isinstance(n, ast.Delete):
                tg.extend(n.targets)
            elif isinstance(n, (ast.For,)):
                tg.extend(self._flatten_targets(n.target))
            for t in tg:
                if isinstance(t, (ast.Attribute, ast.Subscript)):
                    self.stats['stores'] += 1
                    st = self.fresh_target_object(f, t)
                    if st[0] == 'fresh':
                        self.stats['fresh_stores'] += 1
                    else:
                        sites.append((n, st, stmt_text(t)))
                elif isinstance(t, ast.Name):
                    if t.id in declared_global:
                        self.stats['stores'] += 1
                        sites.append((n, ('global', t.id), t.id))
                    elif isinstance(n, ast.AugAssign):
                        # in-place operator on a name: mutates the object when it is mutable
                        self.stats['stores'] += 1
                        k = self.name_kind(f, t.id)
                        if k == 'local' and self.fresh_name(f, t.id):
                            self.stats['fresh_stores'] += 1
                        elif k == 'param':
                            sites.append((n, ('param', t.id), t.id + ' (in-place operator)'))
                        elif k == 'local':
                            for kind, nm in self.alias_roots(f, t.id):
                                sites.append((n, (kind, nm), t.id + ' (in-place operator)'))
                                break
            if isinstance(n, ast.Name) and isinstance(n.ctx, ast.Load) and self.name_kind(f, n.id) == 'global':
                # a module-level one-shot iterator (map / filter / zip / generator ...): the first use consumes it - hidden state that
                # makes the second call see an empty sequence
                src = self._module_binding(f.module, n.id)
                if src is not None and _one_shot(src):
                    self.stats['stores'] += 1
                    sites.append((n, ('global', n.id), '%s = %s  (a one-shot iterator: the first use consumes it)' % (n.id, stmt_text(src)[:60])))
            if isinstance(n, ast.Call) and isinstance(n.func, ast.Attribute) and n.func.attr in MUTATORS:
                tgt = self.rs.callee(f, n)
                recv_glob = self.repo.resolve_expr(f, n.func.value, self.rs.locals_of(f))
                if isinstance(tgt, (Func, Class)) or isinstance(recv_glob, (Ext, Module)):
                    # repository methods are handled through summaries; numpy.sort(x) etc. are functions, not methods
                    continue
                self.stats['stores'] += 1
                st = self.object_status(f, n.func.value)
                if st[0] == 'fresh':
                    self.stats['fresh_stores'] += 1
                else:
                    sites.append((n, st, '%s.%s(...)' % (stmt_text(n.func.value), n.func.attr)))
            if isinstance(n, ast.Call):
                tgt = self.rs.callee(f, n)
                if isinstance(tgt, Ext):
                    if tgt.name in EXT_INPLACE_FUNCS:
                        for i in EXT_INPLACE_FUNCS[tgt.name]:
                            if i < len(n.args):
                                self.stats['stores'] += 1
                                st = self.object_status(f, n.args[i])
                                if st[0] != 'fresh':
                                    sites.append((n, st, '%s(%s, ...)' % (tgt.name, stmt_text(n.args[i]))))
                                else:
                                    self.stats['fresh_stores'] += 1
                    if tgt.name.startswith(NONDETERMINISTIC) or tgt.name in NONDETERMINISTIC:
                        sites.append((n, ('nondet', tgt.name), stmt_text(n)))
                # out= keyword of numpy functions
                for kw in n.keywords:
                    if kw.arg == 'out':
                        self.stats['stores'] += 1
                        st = self.object_status(f, kw.value)
                        if st[0] != 'fresh':
                            sites.append((n, st, 'out=%s' % stmt_text(kw.value)))
                        else:
                            self.stats['fresh_stores'] += 1
        return sites

    def _module_binding(self, module, name, _depth=0):
        """value expression of a module-level name (followed through `from m import name`)"""
        if _depth > 4:
            return None
        b = module.assigns.get(name)
        if b:
            return b[-1][0]
        imp = module.imports.get(name)
        if imp and imp[0] == 'attr':
            try:
                other = self.repo.module(imp[1])
            except Exception:
                return None
            if other is not None:
                return self._module_binding(other, imp[2], _depth + 1)
        return None

    def _flatten_targets(self, t):
        if isinstance(t, (ast.Tuple, ast.List)):
            out = []
            for e in t.elts:
                out.extend(self._flatten_targets(e))
            return out
        if isinstance(t, ast.Starred):
            return self._flatten_targets(t.value)
        return [t]

    # ------------------------------------------------------------------ fixed point
    def _fixpoint(self):
        # returns_fresh: greatest fixed point
        changed = True
        rounds = 0
        while changed and rounds < 50:
            changed = False
            rounds += 1
            for f in self.funcs:
                if not self.ret_fresh[id(f)]:
                    continue
                ok = True
                for n in self._own_nodes(f):
                    if isinstance(n, ast.Return) and n.value is not None:
                        vals = n.value.elts if isinstance(n.value, ast.Tuple) else [n.value]
                        for v in vals:
                            if not self.fresh_expr(f, v):
                                ok = False
                if not ok:
                    self.ret_fresh[id(f)] = False
                    changed = True
        for f in self.funcs:
            self.class_attr_fresh = dict((k, {}) for k in self.class_attr_fresh)
        for f in self.funcs:
            for node, st, text in self._scan_function(f):
                site = Site(f, node, st[0] + (':' + st[1] if len(st) > 1 else ''), text, stmt_text(node))
                self.direct_sites[id(f)].append((site, st))
                self._record(f, st, site, [])
        # propagate through calls
        changed = True
        rounds = 0
        while changed and rounds < 100:
            changed = False
            rounds += 1
            for f in self.funcs:
                for call, targets in self.callees[id(f)]:
                    for g in targets:
                        if id(g) not in self.fkey:
                            continue
                        # mutated parameters of g
                        for pname, (site, path) in list(self.mut_params[id(g)].items()):
                            actual = self._actual_for(f, call, g, pname)
                            if actual is None:
                                continue
                            st = self.object_status(f, actual)
                            if st[0] == 'fresh':
                                continue
                            if self._record(f, st, site, [g.qualname] + path):
                                changed = True
                        if self.mut_self[id(g)] is not None:
                            site, path = self.mut_self[id(g)]
                            recv = self._receiver(f, call)
                            if recv is not None:
                                st = self.object_status(f, recv)
                                if st[0] != 'fresh':
                                    if self._record(f, st, site, [g.qualname] + path):
                                        changed = True
                        for site, path in self.mut_global[id(g)]:
                            if not any(s is site for s, p in self.mut_global[id(f)]):
                                self.mut_global[id(f)].append((site, [g.qualname] + path))
                                changed = True
                        for site, path in self.nondet[id(g)]:
                            if not any(s is site for s, p in self.nondet[id(f)]):
                                self.nondet[id(f)].append((site, [g.qualname] + path))
                                changed = True
        self.rounds = rounds

    def _record(self, f, st, site, path):
        kind = st[0]
        if kind == 'param':
            if st[1] not in self.mut_params[id(f)]:
                self.mut_params[id(f)][st[1]] = (site, path)
                return True
        elif kind == 'self':
            if self.mut_self[id(f)] is None:
                self.mut_self[id(f)] = (site, path)
                return True
        elif kind == 'global':
            if not any(s is site for s, p in self.mut_global[id(f)]):
                self.mut_global[id(f)].append((site, path))
                return True
        elif kind == 'nondet':
            if not any(s is site for s, p in self.nondet[id(f)]):
                self.nondet[id(f)].append((site, path))
                return True
        elif kind == 'unknown':
            pass
        return False

    def _receiver(self, f, call):
        if isinstance(call, ast.Call) and isinstance(call.func, ast.Attribute):
            return call.func.value
        if isinstance(call, ast.BinOp):
            return call.left
        if isinstance(call, ast.UnaryOp):
            return call.operand
        if isinstance(call, ast.Call):
            return None     # constructor call: self is the new object
        return None

    def _actual_for(self, f, call, g, pname):
        if isinstance(call, ast.BinOp):
            ps = g.call_params()
            if ps and ps[0].name == pname:
                return call.right
            return None
        if isinstance(call, ast.UnaryOp):
            return None
        b = bind_call(g.call_params(), call)
        return b.args.get(pname)
