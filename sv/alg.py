"""E4 - exact normal forms: exponential polynomials / rational functions over interned atoms.

A value is a rational function  num/den  whose numerator and denominator are polynomials
        sum_j  c_j * prod_k atom_k^e_k * exp(P_j)
with Gaussian-rational coefficients c_j, integer (possibly negative) exponents e_k, and P_j a polynomial over
atoms without exponentials.  sin, cos, tan, sinh, cosh, tanh are expanded into exponentials, so every identity
between circular / hyperbolic functions of rationally related arguments holds by construction
(sin^2+cos^2 = 1, angle addition, product-to-sum, multiple angles).  Other functions (sqrt, atan, atan2, asin,
acos, log, abs, int, ...) are opaque interned atoms  f(args)  whose arguments are themselves normal forms;
sqrt(u)^2 -> u, exp(+-i*atan(u)), exp(+-i*asin(u)), exp(+-i*acos(u)) and exp(+-log(u)) are rewritten.

Equality is decided by cross-multiplication; nothing is ever evaluated numerically.
"""
from fractions import Fraction
import itertools

# ---------------------------------------------------------------------------------------- Gaussian rationals


class GQ(object):
    __slots__ = ('re', 'im')

    def __init__(self, re=0, im=0):
        self.re = re if isinstance(re, Fraction) else Fraction(re)
        self.im = im if isinstance(im, Fraction) else Fraction(im)

    def __add__(self, o):
        return GQ(self.re + o.re, self.im + o.im)

    def __sub__(self, o):
        return GQ(self.re - o.re, self.im - o.im)

    def __neg__(self):
        return GQ(-self.re, -self.im)

    def __mul__(self, o):
        if not self.im and not o.im:
            return GQ(self.re * o.re, 0)
        return GQ(self.re * o.re - self.im * o.im, self.re * o.im + self.im * o.re)

    def inv(self):
        d = self.re * self.re + self.im * self.im
        return GQ(self.re / d, -self.im / d)

    def __truediv__(self, o):
        return self * o.inv()

    def __eq__(self, o):
        return isinstance(o, GQ) and self.re == o.re and self.im == o.im

    def __hash__(self):
        return hash((self.re, self.im))

    def __bool__(self):
        return bool(self.re) or bool(self.im)

    def is_real(self):
        return not self.im

    def conj(self):
        return GQ(self.re, -self.im)

    def __repr__(self):
        if not self.im:
            return str(self.re)
        if not self.re:
            return '%s*i' % self.im
        return '(%s%+s*i)' % (self.re, self.im)


ZERO = GQ(0)
ONE = GQ(1)
I = GQ(0, 1)


def gq(x):
    if isinstance(x, GQ):
        return x
    return GQ(Fraction(x))


# ---------------------------------------------------------------------------------------- atoms

class Atom(object):
    """interned generator. kind: 'sym' (free leaf), 'fn' (function application), 'unk' (unknown)"""
    __slots__ = ('id', 'kind', 'name', 'args', 'extra')

    def __repr__(self):
        return atom_str(self, 2)


class AtomTable(object):
    def __init__(self):
        self.atoms = []
        self.syms = {}
        self.fns = {}      # name -> list of atoms
        self.struct = {}   # structural key -> atom
        self.unk = 0

    def _new(self, kind, name, args=(), extra=None):
        a = Atom()
        a.id = len(self.atoms)
        a.kind = kind
        a.name = name
        a.args = tuple(args)
        a.extra = extra
        self.atoms.append(a)
        return a

    def sym(self, name):
        a = self.syms.get(name)
        if a is None:
            a = self._new('sym', name)
            self.syms[name] = a
        return a

    def unknown(self, reason):
        self.unk += 1
        return self._new('unk', '?%d<%s>' % (self.unk, reason))

    def fn(self, name, args):
        """intern f(args): args are Rat (or other hashable constants such as str).  Structural match first (hash),
        then - except for definition atoms - folded algebraic equality among candidates over the same generators."""
        skey = (name, tuple((x.num.key(), x.den.key()) if isinstance(x, Rat) else ('c', x) for x in args))
        a = self.struct.get(skey)
        if a is not None:
            return a
        sets = tuple(frozenset(x.num.atoms() | x.den.atoms()) if isinstance(x, Rat) else None for x in args)
        if name != 'def':
            for b in self.fns.get(name, ()):
                if len(b.args) == len(args) and b.extra == sets and all(_arg_eq(x, y) for x, y in zip(b.args, args)):
                    self.struct[skey] = b
                    return b
        a = self._new('fn', name, args, sets)
        self.fns.setdefault(name, []).append(a)
        self.struct[skey] = a
        return a


UNSURE = set()     # atom-id pairs whose arguments could not be proven different (budget exceeded)


def _arg_eq(x, y):
    """folded (no unfolding of definitions) equality - cheap; a miss only creates a second atom for the same
    function, which decide_equal() repairs when it matters"""
    if isinstance(x, Rat) and isinstance(y, Rat):
        if x.num is y.num and x.den is y.den:
            return True
        if len(x.num.t) * len(y.den.t) > 20000 or len(y.num.t) * len(x.den.t) > 20000:
            return x.num == y.num and x.den == y.den
        return x.equals(y)
    return type(x) is type(y) and x == y


TABLE = AtomTable()


_UNMODELLED = {}


def reset():
    global TABLE
    TABLE = AtomTable()
    UNSURE.clear()
    _UNMODELLED.clear()
    _DEF_PAIR.clear()
    return TABLE


# ---------------------------------------------------------------------------------------- definitions (let-abstraction)
DEF_THRESHOLD = 14      # a value with more terms than this is named by an interned 'def' atom when stored
UNFOLD_BUDGET = 600    # maximal number of terms tolerated while unfolding definitions in a comparison


def size(r):
    return len(r.num.t) + len(r.den.t)


def define(r, threshold=None):
    """name a large value by an interned definition atom (exact: the atom *is* the value)"""
    if not isinstance(r, Rat):
        return r
    th = DEF_THRESHOLD if threshold is None else threshold
    if size(r) <= th:
        return r
    r = norm(r)
    if size(r) <= th:
        return r
    return Rat.atom(TABLE.fn('def', (r,)))


def def_atoms(r):
    """ids of definition atoms occurring at the top level of r (not inside function arguments)"""
    out = set()
    for k in r.num.atoms() | r.den.atoms():
        a = TABLE.atoms[k]
        if a.kind == 'fn' and a.name == 'def':
            out.add(k)
    return out


def unfold(r, ids=None, levels=1):
    """substitute definition atoms (all, or the given ids) by their definitions, `levels` deep"""
    for _ in range(levels):
        ds = def_atoms(r)
        if ids is not None:
            ds &= set(ids)
        if not ds:
            return r
        r = _subst_top(r, dict((k, TABLE.atoms[k].args[0]) for k in ds))
    return r


def unfold_dependent(r, atom_id, budget=None):
    """unfold (repeatedly) only the definition atoms whose definitions depend on the given free symbol"""
    budget = budget or 20 * UNFOLD_BUDGET
    guard = 0
    while guard < 40:
        guard += 1
        ds = [k for k in def_atoms(r) if atom_id in TABLE.atoms[k].args[0].atoms(deep=True)]
        if not ds:
            return r
        r = unfold(r, ds)
        if size(r) > budget:
            return None
    return None


def unfold_all(r, budget=None):
    budget = budget or UNFOLD_BUDGET
    guard = 0
    while def_atoms(r) and guard < 30:
        guard += 1
        r = unfold(r)
        if size(r) > budget:
            return None
    return r


def sum_rats(terms):
    """sum of Rats grouping equal denominators first (avoids repeated cross-multiplication)"""
    groups = {}
    order = []
    for t in terms:
        k = t.den
        if k in groups:
            groups[k] = groups[k] + t.num
        else:
            groups[k] = t.num
            order.append(k)
    res = None
    for k in order:
        if groups[k].is_zero():
            continue
        r = Rat(groups[k], k)
        res = r if res is None else res + r
    return res if res is not None else Rat.const(0)


def _subst_top(r, mapping):
    """replace top-level atoms (including inside exponent polynomials) by Rats"""
    def poly_val(p):
        terms = []
        for (a, e), c in p.t.items():
            keep = tuple((k, x) for k, x in a if k not in mapping)
            term = Rat(Poly({(keep, NOEXP): c}), None, False)
            for k, x in a:
                if k in mapping:
                    term = term * mapping[k].ipow(x)
            if e:
                hit = any(k in mapping for ak, ec in e for k, x in ak)
                if not hit:
                    term = term * Rat(Poly({((), e): ONE}), None, False)
                else:
                    ex = C(0)
                    for ak, ec in e:
                        t2 = Rat.const(ec)
                        for k, x in ak:
                            t2 = t2 * (mapping[k].ipow(x) if k in mapping else Rat(Poly.atom(TABLE.atoms[k], x), None, False))
                        ex = ex + t2
                    term = term * exp(ex)
            terms.append(term)
        return sum_rats(terms)
    n = poly_val(r.num)
    if r.den.is_const():
        return norm(n * Rat.const(r.den.const_value().inv()))
    return norm(n / poly_val(r.den))


_DECIDE_DEPTH = [0]


def _clear_reciprocal_roots(d):
    """sqrt(u)**-1 and sqrt(u) are not independent generators (sqrt(u)**-1 = sqrt(u)/u): for the zero test the difference is multiplied by
    the root as often as its most negative exponent says (a root in a denominator is non-zero) and reduced again (sqrt(u)**2 -> u)"""
    num = d.num
    for _ in range(6):
        neg = {}
        for (a, e) in num.t:
            for k, x in a:
                if x < 0:
                    at = TABLE.atoms[k]
                    if at.kind == 'fn' and at.name == 'sqrt':
                        neg[k] = min(neg.get(k, 0), x)
        if not neg or len(num.t) > 4000:
            break
        mono = tuple(sorted((k, -x) for k, x in neg.items()))
        num = reduce_poly(num * Poly({(mono, NOEXP): ONE})).num
    return Rat(num, Poly.const(1)) if num is not d.num else d


def _difference(a, b, budget):
    if a.den == b.den:
        return _clear_reciprocal_roots(reduce_poly(a.num - b.num))
    if len(a.num.t) * len(b.den.t) + len(b.num.t) * len(a.den.t) > 6 * budget:
        return None
    return _clear_reciprocal_roots(reduce_poly(a.num * b.den - b.num * a.den))


def _depends(atom_id, t, _memo):
    if atom_id == t:
        return True
    if atom_id in _memo:
        return _memo[atom_id]
    a = TABLE.atoms[atom_id]
    res = False
    if a.kind == 'fn':
        for x in a.args:
            if isinstance(x, Rat) and t in x.atoms(deep=True):
                res = True
                break
    _memo[atom_id] = res
    return res


def separable_nonzero(p):
    """sufficient condition for a polynomial p over generators (some of them definition atoms) to be a non-zero function
    without unfolding: there is a free symbol t on which no definition atom of p depends; p is written as
    sum_k c_k * m_k with m_k distinct monomials in t-dependent generators and c_k polynomials in t-free ones; distinct m_k are
    linearly independent over the t-free functions, so p == 0 would need every c_k == 0, and a c_k that is a single
    non-zero term (a product of non-zero generators) or that contains no definition atom is not zero."""
    if not p.t:
        return False
    syms = [k for k in p.atoms() if TABLE.atoms[k].kind == 'sym']
    defs = [k for k in p.atoms() if TABLE.atoms[k].kind == 'fn' and TABLE.atoms[k].name == 'def']
    for t in syms:
        memo = {}
        if any(_depends(k, t, memo) for k in defs):
            continue
        groups = {}
        for (a, e), c in p.t.items():
            dep = tuple((k, x) for k, x in a if _depends(k, t, memo))
            free = tuple((k, x) for k, x in a if not _depends(k, t, memo))
            edep = any(_depends(k, t, memo) for ak, ec in e for k, x in ak)
            key = (dep, e if edep else NOEXP)
            ck = (free, NOEXP if edep else e)
            g = groups.setdefault(key, {})
            g[ck] = g.get(ck, ZERO) + c
        if len(groups) < 1:
            continue
        for key, g in groups.items():
            g = dict((k, v) for k, v in g.items() if v)
            if not g:
                continue
            if len(g) == 1:
                return True
            has_def = any(TABLE.atoms[k].kind == 'fn' and TABLE.atoms[k].name == 'def' for (fa, fe) in g for k, x in fa)
            if not has_def:
                return True
    return False


def _top_atoms(r):
    return r.num.atoms() | r.den.atoms()


_DEF_PAIR = {}      # (definition atom id, definition atom id) -> verdict on the two definitions (ids are never reused within a table)


def _affine_in(r, k):
    """the atom k occurs in r only with degree one in the numerator and in the denominator (a Moebius function (alpha D + beta) / (gamma D +
    delta) of it: injective where it is not constant) and never inside an exponent"""
    for poly in (r.num, r.den):
        for (mono, ex), c in poly.t.items():
            for ak, e in mono:
                if ak == k and e != 1:
                    return False
            for emono, ec in ex:
                if any(ak == k for ak, e in emono):
                    return False
    return True


def _rational_in(r, k):
    """the atom k occurs in r only as integer powers in numerator / denominator monomials, never inside an exponent or another atom"""
    for poly in (r.num, r.den):
        for (mono, ex), c in poly.t.items():
            for emono, ec in ex:
                if any(ak == k for ak, e in emono):
                    return False
            for ak, e in mono:
                if ak != k and k in Rat.atom(TABLE.atoms[ak]).atoms(deep=True) and ak != k:
                    at_ = TABLE.atoms[ak]
                    if at_.kind == 'fn' and at_.name != 'def':
                        return False
    return True


def _divided_difference_nonzero(r, k, da, db, trials=4):
    """r = N(D)/S(D) in the definition atom D = atom k.  Q(X, Y) = [N(X) S(Y) - N(Y) S(X)] / (X - Y) as a polynomial (each monomial pair has
    an explicit divided difference) evaluated at X = value of definition da, Y = value of definition db at sample points: robustly
    non-zero at one of them means Q is not the zero function"""
    def split(poly):
        out = {}
        for (mono, ex), c in poly.t.items():
            deg = 0
            rest = []
            for ak, e in mono:
                if ak == k:
                    deg = e
                else:
                    rest.append((ak, e))
            if deg < 0:
                return None
            key = (tuple(rest), ex)
            out.setdefault(deg, {})
            out[deg][key] = out[deg].get(key, ZERO) + c
        return out
    ns, ss = split(r.num), split(r.den)
    if ns is None or ss is None:
        return False
    ids = sorted(set(r.atoms(deep=True)) | set(da.args[0].atoms(deep=True)) | set(db.args[0].atoms(deep=True)))
    syms = [TABLE.atoms[i] for i in ids if TABLE.atoms[i].kind == 'sym' and TABLE.atoms[i].name != 'pi']
    opq = [i for i in ids if TABLE.atoms[i].kind == 'fn' and (TABLE.atoms[i].name.startswith('call:') or TABLE.atoms[i].name in ('item',))]
    for t in range(trials):
        env = {}
        for j, sy in enumerate(syms):
            frac = ((t + 1) * 0.6180339887498949 + (j + 1) * 0.7548776662466927) % 1.0
            lo, hi = _sample_range(sy.name)
            env[sy.id] = lo + (hi - lo) * frac
        for j, i in enumerate(opq):
            env[i] = 0.3 + 0.6 * (((t + 1) * 0.5545497 + (j + 1) * 0.3819660) % 1.0)
        try:
            X, Y = evalf(da.args[0], env), evalf(db.args[0], env)

            def coef(d):
                out = {}
                for deg, terms in d.items():
                    tot = 0.0
                    for (rest, ex), c in terms.items():
                        tot += evalf(Rat(Poly({(rest, ex): c})), env)
                    out[deg] = tot
                return out
            nc, sc = coef(ns), coef(ss)
        except (NotEvaluable, ZeroDivisionError, OverflowError, ValueError, RecursionError):
            continue
        q = 0.0
        mag = 0.0
        for j, nj in nc.items():
            for kk, sk in sc.items():
                if j == kk:
                    continue
                lo_, hi_ = min(j, kk), max(j, kk)
                dd = sum((X ** m_) * (Y ** (hi_ - lo_ - 1 - m_)) for m_ in range(hi_ - lo_)) * ((X * Y) ** lo_)
                term = nj * sk * dd * (1 if j > kk else -1)
                q += term
                mag += abs(term)
        if mag > 0 and abs(q) > 1e-6 * mag:
            return True
    return False


def _sample_range(name):
    if 'semimaj' in name:
        return (6.3e6, 6.4e6)
    if 'inversef' in name:
        return (280.0, 320.0)
    return (0.1, 0.9)


def _pair_verdict(A1, A2, budget, why):
    """compare two atoms of the same function symbol by their arguments"""
    if A1.kind != 'fn' or A2.kind != 'fn' or A1.name != A2.name or len(A1.args) != len(A2.args):
        return None
    res = 'equal'
    for x, y in zip(A1.args, A2.args):
        if isinstance(x, Rat) and isinstance(y, Rat):
            r = decide_equal(x, y, budget, why)
        else:
            r = 'equal' if (type(x) is type(y) and x == y) else 'different'
        if r == 'different':
            return 'different'
        if r == 'unknown':
            res = 'unknown'
    return res


def _unmodelled(k):
    """the generator is, or contains at any depth, a value the evaluator does not model (unknown, external call, array/string operation)"""
    if k in _UNMODELLED:
        return _UNMODELLED[k]
    _UNMODELLED[k] = False
    at = TABLE.atoms[k]
    r = False
    if at.kind == 'unk' or (at.kind == 'fn' and at.name.startswith(('ext:', 'array', 'strop', 'fstring'))):
        r = True
    elif at.kind in ('fn', 'def'):
        for x in at.args:
            if isinstance(x, Rat) and any(_unmodelled(j) for j in x.atoms(deep=False)):
                r = True
                break
    _UNMODELLED[k] = r
    return r


def _special_point(ca):
    """for a condition atom that singles out ONE value of ONE input symbol: (symbol id, value, condition is true AT the special value)
    truthy(x): special value 0, true away from it; eq(x + c, d): special value d - c, true at it; ne: the reverse; not(...) flips"""
    if ca.kind != 'fn':
        return None
    if ca.name == 'not' and len(ca.args) == 1 and isinstance(ca.args[0], Rat):
        inner = None
        c0 = ca.args[0]
        if len(c0.num.t) == 1 and c0.den.is_const():
            (mm, cc), = c0.num.t.items()
            if len(mm[0]) == 1 and not mm[1] and mm[0][0][1] == 1:
                inner = TABLE.atoms[mm[0][0][0]]
        r = _special_point(inner) if inner is not None else None
        return None if r is None else (r[0], r[1], not r[2])
    if ca.name == 'truthy' and len(ca.args) == 1 and isinstance(ca.args[0], Rat):
        e, target, at_special = ca.args[0], Fraction(0), False
    elif ca.name in ('eq', 'ne') and len(ca.args) == 2 and all(isinstance(x, Rat) for x in ca.args):
        e, target, at_special = ca.args[0] - ca.args[1], Fraction(0), ca.name == 'eq'
    elif ca.name in ('eq', 'ne') and len(ca.args) == 2 and any(x in ('False', 'True') for x in ca.args if isinstance(x, str)):
        # `x is False` / `x == True`: in arithmetic False is 0 and True is 1
        rats = [x for x in ca.args if isinstance(x, Rat)]
        keys = [x for x in ca.args if isinstance(x, str)]
        if len(rats) != 1 or len(keys) != 1:
            return None
        e, target, at_special = rats[0], Fraction(1 if keys[0] == 'True' else 0), ca.name == 'eq'
    else:
        return None
    # e must be affine in exactly one free symbol: e = p*s + q with constants p != 0, q
    syms = [k for k in e.atoms(deep=False) if TABLE.atoms[k].kind == 'sym' and TABLE.atoms[k].name != 'pi']
    if len(syms) == 1 and target == 0 and e.den.is_const() and len(e.num.t) == 1:
        # a single term c * pi^k * s: zero exactly where s is
        mono_ = list(e.num.t.keys())[0]
        if not mono_[1] and all((TABLE.atoms[k_].kind == 'sym' and TABLE.atoms[k_].name == 'pi') or (k_ == syms[0] and x_ == 1) for k_, x_ in mono_[0]) \
                and any(k_ == syms[0] for k_, x_ in mono_[0]):
            return syms[0], Fraction(0), at_special
    if len(syms) == 2 and target == 0 and e.den.is_const() and len(e.atoms(deep=False)) == 2 and ca.name in ('eq', 'ne', 'truthy'):
        # s1 == s2 (up to constant factors): the special "value" of s1 is the other input
        cf = {}
        for (mono, ex), c in e.num.t.items():
            if ex or len(mono) != 1 or mono[0][1] != 1 or mono[0][0] not in syms or not c.is_real():
                return None
            cf[mono[0][0]] = c.re
        if len(cf) == 2 and all(cf.values()):
            s1, s2 = sorted(syms)
            return s1, Rat.atom(TABLE.atoms[s2]) * C(-cf[s2] / cf[s1]), at_special
        return None
    if len(syms) != 1 or not e.den.is_const() or len(e.atoms(deep=False)) != 1:
        return None
    sid = syms[0]
    p = q = Fraction(0)
    dc = e.den.const_value()
    for (mono, ex), c in e.num.t.items():
        if ex:
            return None
        v = c / dc
        if not v.is_real():
            return None
        if mono == ():
            q = v.re
        elif mono == ((sid, 1),):
            p = v.re
        else:
            return None
    if p == 0:
        return None
    return sid, (target - q) / p, at_special


NEW_SYMBOLS = ('mod', 'floordiv', 'floor', 'ceil', 'int', 'nearest', 'rnd', 'rndsig', 'max', 'min', 'uninit', 'fmod', 'isinstance', 'type')


def _deep_one_sided(a, b):
    """a generator of a genuinely NEW kind that occurs - at any depth, inside definitions too - on one side only: a rounding, a truncation, a
    modulo, a clamp, an uninitialised cell, a type test, an opaque call, or a conditional on an ORDERING test with different arms.  These
    are function symbols no rewrite rule of the normal form relates to the arithmetic / exponential / root / inverse-trigonometric atoms
    (for those - sqrt(1 + tan^2) against 1/cos - nothing is concluded here).  Used when the definitions are too large to unfold: a form
    that contains such a generator and one that does not are different functions (the generator would have to cancel out of a
    polynomial in which it occurs)."""
    da, db = a.atoms(deep=True), b.atoms(deep=True)
    for only, other in ((da - db, db), (db - da, da)):
        other_names = set()
        for k in other:
            at = TABLE.atoms[k]
            if at.kind == 'fn':
                other_names.add(at.name)
        for k in only:
            at = TABLE.atoms[k]
            if at.kind != 'fn':
                continue
            new_kind = at.name in NEW_SYMBOLS or at.name.startswith('call:')
            if at.name == 'ite' and len(at.args) == 3 and isinstance(at.args[0], Rat) and isinstance(at.args[1], Rat) and isinstance(at.args[2], Rat):
                c0 = at.args[0]
                ca = None
                if len(c0.num.t) == 1 and c0.den.is_const():
                    (mm, cc), = c0.num.t.items()
                    if len(mm[0]) == 1 and not mm[1] and mm[0][0][1] == 1:
                        ca = TABLE.atoms[mm[0][0][0]]
                if ca is not None and ca.kind == 'fn' and ca.name in ('lt', 'le', 'gt', 'ge') and not at.args[1].equals(at.args[2]):
                    new_kind = True
            # the same function symbol on the other side (another mod, another call of the same function) may be the same value written
            # differently: only a symbol the other side does not have at all is conclusive
            if new_kind and at.name not in other_names:
                return True
    return False


NUMERIC_RANGES = [None]      # optional hook: name -> (low, high) for the sample points of the numeric veto (symcheck installs its ranges)


def _numerically_equal(a, b, trials=8, need=4, rel=1e-13):
    """True when both forms can be evaluated in doubles at `need` or more sample points and agree at every one of them to `rel` (a few
    hundred ulps).  Two forms that agree that well everywhere they are looked at cannot be called DEFINITELY different: the independence
    argument behind such a verdict has then met an identity the normal form does not know (exp(log x + r) = x exp(r) behind a quotient)."""
    if not isinstance(a, Rat) or not isinstance(b, Rat):
        return False
    ids = sorted(set(a.atoms(deep=True)) | set(b.atoms(deep=True)))
    if any(TABLE.atoms[k].kind == 'fn' and TABLE.atoms[k].name in ('ite', 'lt', 'le', 'gt', 'ge', 'eq', 'ne', 'and', 'or', 'not', 'truthy', 'in', 'notin', 'isinstance', 'type',
                                                                     'int', 'floor', 'ceil', 'nearest', 'rnd', 'rndsig', 'mod', 'floordiv', 'fmod', 'max', 'min')
           for k in ids):
        # conditionals and step functions differ on sets a handful of sample points do not meet (a flag, an equality, a boundary): the veto is
        # for smooth arithmetic only
        return False
    syms = [TABLE.atoms[k] for k in ids if TABLE.atoms[k].kind == 'sym' and TABLE.atoms[k].name != 'pi']
    try:
        shared = sorted(_shared_opaque(a, b))
    except Exception:
        return False
    rng = NUMERIC_RANGES[0]
    ok = 0
    for t in range(trials):
        env = {}
        for j, s_ in enumerate(syms):
            lo, hi = (rng[s_.name] if rng is not None else _sample_range(s_.name))
            env[s_.id] = lo + (hi - lo) * (((t + 1) * 0.6180339887498949 + (j + 1) * 0.7548776662466927) % 1.0)
        for j, k in enumerate(shared):
            env[k] = 0.3 + 0.6 * (((t + 1) * 0.5545497 + (j + 1) * 0.3819660) % 1.0)
        try:
            va, vb = evalf(a, env), evalf(b, env)
        except (NotEvaluable, ZeroDivisionError, OverflowError, ValueError):
            continue
        if va != va or vb != vb:
            continue
        if abs(va - vb) > rel * max(abs(va), abs(vb), 1e-300):
            return False
        ok += 1
    return ok >= need


def decide_equal(a, b, budget=None, _why=None):
    r = _decide_equal(a, b, budget, _why)
    if r == 'different' and _DECIDE_DEPTH[0] == 0:
        try:
            if _numerically_equal(a, b):
                return 'unknown'
        except RecursionError:
            pass
        return r
    if r == 'unknown' and _DECIDE_DEPTH[0] == 0:
        try:
            if _deep_one_sided(a, b):
                return 'different'
        except RecursionError:
            pass
    return r


def _decide_equal(a, b, budget=None, _why=None):
    """'equal' | 'different' | 'unknown'.
    1. folded comparison (definition atoms are names);
    2. if the two forms differ only by a one-for-one exchange of generators of the same function symbol
       (typically a chain of definition atoms down to the place where the two computations really differ) the verdict
       is that of the exchanged generators' arguments, decided recursively;
    3. otherwise definitions occurring in the difference are unfolded (bounded) and function atoms merged when their
       arguments turn out equal.  'different' is only returned for a non-zero difference over generators that were all
       proven pairwise different."""
    budget = budget or UNFOLD_BUDGET
    if a.num == b.num and a.den == b.den:
        return 'equal'
    if _DECIDE_DEPTH[0] > 24:
        return 'unknown'
    _DECIDE_DEPTH[0] += 1
    try:
        if a.equals(b):
            return 'equal'
        # ---- step 2: one-for-one exchange of generators
        ta, tb = _top_atoms(a), _top_atoms(b)
        only_a = sorted(ta - tb)
        only_b = sorted(tb - ta)
        if only_a and len(only_a) == len(only_b) and len(only_a) <= 4:
            # every structurally matching pairing is looked at: `equal` as soon as one pairing has all its pairs equal; `different` only
            # when EVERY matching pairing has a definitely different pair and the exchanged generators are independent ones (function
            # atoms, free symbols).  Definition atoms are NAMES of polynomials, not generators: two sums D1 + D2 + D3 and D4 + D5 + D6 can be
            # equal with no Di equal to any Dj - those are left to the unfolding of step 3
            matched = 0
            n_diff = 0
            n_unknown = 0
            n_clean = 0
            has_def = False
            for perm in itertools.permutations(only_b):
                ok = True
                for x, y in zip(only_a, perm):
                    ax, ay = TABLE.atoms[x], TABLE.atoms[y]
                    if ax.kind != ay.kind or ax.name != ay.name if ax.kind == 'fn' else ax.kind != ay.kind:
                        ok = False
                        break
                if not ok:
                    continue
                m = dict((y, Rat.atom(TABLE.atoms[x])) for x, y in zip(only_a, perm))
                b2 = _subst_top(b, m)
                if not a.equals(b2):
                    continue
                matched += 1
                # the forms are R(S_a) and R(S_b): decide the exchanged generators
                verdicts = []
                for x, y in zip(only_a, perm):
                    ax, ay = TABLE.atoms[x], TABLE.atoms[y]
                    if ax.kind == 'fn' and ax.name != 'def':
                        verdicts.append(_pair_verdict(ax, ay, budget, _why))
                    elif ax.kind == 'fn':
                        # a definition atom names a polynomial.  ONE exchanged definition in which the form is affine (c * D + rest, D
                        # neither squared nor in a denominator or exponent): R(Da) - R(Db) = c (Da - Db), so the verdict on the two
                        # definitions is the verdict on the forms.  Several exchanged definitions can cancel among themselves
                        # (D1 + D2 + D3 against D4 + D5 + D6): nothing is concluded here, step 3 unfolds them
                        if len(only_a) == 1 and _affine_in(a, x) and ax.args and ay.args and isinstance(ax.args[0], Rat) and isinstance(ay.args[0], Rat):
                            verdicts.append(decide_equal(ax.args[0], ay.args[0], budget, _why))
                        elif len(only_a) == 1 and ax.args and ay.args and isinstance(ax.args[0], Rat) and isinstance(ay.args[0], Rat) and _rational_in(a, x):
                            # R(Da) - R(Db) = (Da - Db) Q(Da, Db) for a rational R: with Da, Db different functions the forms are equal only
                            # if the divided difference Q vanishes identically - it is evaluated (a sum without cancellation) at sample points
                            v_ = decide_equal(ax.args[0], ay.args[0], budget, _why)
                            if v_ == 'different' and not _divided_difference_nonzero(a, x, ax, ay):
                                v_ = 'unknown'
                                has_def = True
                            elif v_ == 'unknown':
                                has_def = True
                            verdicts.append(v_)
                        else:
                            has_def = True
                            ck_ = (min(x, y), max(x, y))
                            if ck_ not in _DEF_PAIR:
                                ok_ = ax.args and ay.args and isinstance(ax.args[0], Rat) and isinstance(ay.args[0], Rat) and size(ax.args[0]) + size(ay.args[0]) <= 12 * budget
                                _DEF_PAIR[ck_] = decide_equal(ax.args[0], ay.args[0], budget) if ok_ else 'unknown'
                            verdicts.append('equal' if _DEF_PAIR[ck_] == 'equal' else 'unknown')
                    else:
                        verdicts.append('different')     # two distinct free symbols / unknowns
                        if ax.kind == 'unk' or ay.kind == 'unk':
                            verdicts[-1] = 'unknown'
                if all(v == 'equal' for v in verdicts):
                    return 'equal'
                if any(v == 'different' for v in verdicts):
                    n_diff += 1
                    # a definitely different pair of independent generators decides the pairing even next to undecided definition pairs -
                    # provided none of the exchanged definitions contains one of the two generators (then R(X, D1) = R(Y, D2) with X, Y
                    # independent and D1, D2 free of them would make R independent of a generator it structurally depends on)
                    if has_def:
                        defs_here = [TABLE.atoms[z] for z in list(only_a) + list(perm) if TABLE.atoms[z].kind == 'fn' and TABLE.atoms[z].name == 'def']
                        inside = set()
                        for dz in defs_here:
                            if dz.args and isinstance(dz.args[0], Rat):
                                inside |= set(dz.args[0].atoms(deep=True))
                        clean = False
                        for (x, y), v in zip(zip(only_a, perm), verdicts):
                            ax_ = TABLE.atoms[x]
                            if v == 'different' and not (ax_.kind == 'fn' and ax_.name == 'def') and x not in inside and y not in inside:
                                clean = True
                        if clean:
                            n_clean += 1
                else:
                    n_unknown += 1
                if matched >= 6:
                    break
            if matched and has_def and n_clean == matched:
                if _why is not None and not _why:
                    _why.append((a, b))
                return 'different'
            if matched and not has_def:
                if n_diff == matched:
                    if _why is not None and not _why:
                        _why.append((a, b))
                    return 'different'
                return 'unknown'
        # ---- step 3: bounded unfolding
        guard = 0
        while True:
            guard += 1
            if guard > 120:
                return 'unknown'
            d = _difference(a, b, budget)
            if d is None:
                return 'unknown'
            if d.num.is_zero():
                return 'equal'
            ds = def_atoms(d)
            if ds:
                # unfold a definition that only one side mentions first, the smallest of them
                da, db = def_atoms(a), def_atoms(b)
                oneside = [q for q in ds if (q in da) != (q in db)]
                k = min(oneside or ds, key=lambda q: size(TABLE.atoms[q].args[0]))
                if size(d) * size(TABLE.atoms[k].args[0]) > 3 * budget:
                    if separable_nonzero(d.num):
                        return 'different'
                    return 'unknown'
                a = unfold(a, [k])
                b = unfold(b, [k])
                if size(a) > budget or size(b) > budget:
                    return 'unknown'
                continue
            ids = sorted(d.num.atoms())
            byname = {}
            for k in ids:
                at = TABLE.atoms[k]
                if at.kind == 'fn':
                    byname.setdefault((at.name, len(at.args)), []).append(at)
                elif at.kind == 'unk':
                    return 'unknown'
            merged = False
            unknown_pair = False
            for (nm, ar), lst in byname.items():
                if len(lst) < 2:
                    continue
                for i1 in range(len(lst)):
                    for i2 in range(i1 + 1, len(lst)):
                        res = _pair_verdict(lst[i1], lst[i2], budget, None)
                        if res == 'equal':
                            m = {lst[i2].id: Rat.atom(lst[i1])}
                            a = _subst_top(a, m)
                            b = _subst_top(b, m)
                            merged = True
                            break
                        if res == 'unknown':
                            unknown_pair = True
                    if merged:
                        break
                if merged:
                    break
            if merged:
                continue
            if unknown_pair:
                return 'unknown'
            # a difference that involves an unmodelled external function on one side only is a modelling gap, not a finding
            ta, tb = _top_atoms(a), _top_atoms(b)
            for k in (ta ^ tb):
                if _unmodelled(k):
                    return 'unknown'
                at_ = TABLE.atoms[k]
                if at_.kind == 'fn' and at_.name == 'ite' and len(at_.args) == 3 and all(isinstance(x_, Rat) for x_ in at_.args):
                    # a conditional value on one side only is not automatically an independent generator:
                    #  - both arms the same function: the conditional IS that function (ite(c, X, X') with X' = X) - replace and decide again;
                    #  - an ordering test (<, <=, >, >=) with definitely different arms: a genuinely piecewise value, different from any
                    #    unconditional form on a region of positive measure - an independent generator;
                    #  - an equality / truthiness test: the special arm matters at single points only - the caller splits on it (case_split)
                    ra_ = decide_equal(at_.args[1], at_.args[2], budget)
                    if ra_ == 'equal':
                        m_ = {k: at_.args[1]}
                        return decide_equal(_subst_top(a, m_), _subst_top(b, m_), budget, _why)
                    ca_ = None
                    c0_ = at_.args[0]
                    if len(c0_.num.t) == 1 and c0_.den.is_const():
                        (mm_, cc_), = c0_.num.t.items()
                        if len(mm_[0]) == 1 and not mm_[1]:
                            ca_ = TABLE.atoms[mm_[0][0][0]]
                    if ra_ == 'different' and ca_ is not None and ca_.kind == 'fn' and ca_.name in ('lt', 'le', 'gt', 'ge'):
                        continue
                    if ca_ is not None and ca_.kind == 'fn' and ca_.name == 'not' and len(ca_.args) == 1 and isinstance(ca_.args[0], Rat):
                        # ite(not c, A, B) is ite(c, B, A): look at c with the arms exchanged
                        c1_ = ca_.args[0]
                        inner_ = None
                        if len(c1_.num.t) == 1 and c1_.den.is_const():
                            (mm1_, cc1_), = c1_.num.t.items()
                            if len(mm1_[0]) == 1 and not mm1_[1]:
                                inner_ = TABLE.atoms[mm1_[0][0][0]]
                        if inner_ is not None and inner_.kind == 'fn' and inner_.name in ('and', 'or', 'truthy', 'eq', 'ne'):
                            flipped = Rat.atom(TABLE.fn('ite', (c1_, at_.args[2], at_.args[1])))
                            m_ = {k: flipped}
                            return decide_equal(_subst_top(a, m_), _subst_top(b, m_), budget, _why)
                    if ca_ is not None and ca_.kind == 'fn' and ca_.name in ('eq', 'ne') and len(ca_.args) == 2 and _DECIDE_DEPTH[0] < 12 \
                            and any(isinstance(x_, str) and (x_.startswith('str<') or x_ == 'None') for x_ in ca_.args):
                        # a test of an input against a string / None: both cases are legitimate inputs - the forms must agree under the
                        # assumption that the test holds and under the assumption that it does not
                        verdicts_ = []
                        for tv_ in (True, False):
                            verdicts_.append(decide_equal(assume(a, c0_, tv_), assume(b, c0_, tv_), budget))
                        if 'different' in verdicts_:
                            return 'different'
                        if all(v_ == 'equal' for v_ in verdicts_):
                            return 'equal'
                        return 'unknown'
                    if ca_ is not None and ca_.kind == 'fn' and ca_.name in ('and', 'or') and _DECIDE_DEPTH[0] < 12 and all(isinstance(x_, Rat) for x_ in ca_.args):
                        # a conjunction of "input is not at its special value" tests (rx and ry and rz) / a disjunction of "is at" tests:
                        # the generic arm must agree everywhere, the other arm at EACH special value
                        parts_ = []
                        flat_ = []

                        def _flat(r_):
                            if len(r_.num.t) == 1 and r_.den.is_const():
                                (m3_, c3_), = r_.num.t.items()
                                if len(m3_[0]) == 1 and not m3_[1] and m3_[0][0][1] == 1:
                                    a3_ = TABLE.atoms[m3_[0][0][0]]
                                    if a3_.kind == 'fn' and a3_.name == ca_.name and all(isinstance(y_, Rat) for y_ in a3_.args):
                                        for y_ in a3_.args:
                                            _flat(y_)
                                        return
                            flat_.append(r_)
                        for x_ in ca_.args:
                            _flat(x_)
                        for x_ in flat_:
                            xa_ = None
                            if len(x_.num.t) == 1 and x_.den.is_const():
                                (mm2_, cc2_), = x_.num.t.items()
                                if len(mm2_[0]) == 1 and not mm2_[1] and mm2_[0][0][1] == 1:
                                    xa_ = TABLE.atoms[mm2_[0][0][0]]
                            pp_ = _special_point(xa_) if xa_ is not None else None
                            parts_.append(pp_)
                        want_at = (ca_.name == 'or')        # or: each disjunct true AT its special value; and: each conjunct true AWAY from it
                        if all(pp_ is not None and pp_[2] != want_at for pp_ in parts_):
                            # the dual: a conjunction of "is AT its special value" tests (a == b and b == c) selects ONE point, where all hold
                            # at once (a disjunction of "is away" tests is its complement): the generic arm must agree everywhere, the
                            # special arm at that simultaneous point
                            generic_arm = at_.args[2] if ca_.name == 'and' else at_.args[1]
                            special_arm = at_.args[1] if ca_.name == 'and' else at_.args[2]
                            rg_ = decide_equal(subst(a, {k: generic_arm}), subst(b, {k: generic_arm}), budget)
                            if rg_ == 'different':
                                return 'different'
                            if rg_ == 'equal':
                                pa_, pb_ = subst(a, {k: special_arm}), subst(b, {k: special_arm})
                                try:
                                    for sid_, val_, _t in parts_:
                                        vv_ = val_ if isinstance(val_, Rat) else C(val_)
                                        pa_, pb_ = subst(pa_, {sid_: vv_}), subst(pb_, {sid_: vv_})
                                except ZeroDivisionError:
                                    return 'unknown'
                                rs_ = decide_equal(pa_, pb_, budget)
                                if rs_ in ('equal', 'different'):
                                    return rs_
                            return 'unknown'
                        if all(pp_ is not None and pp_[2] == want_at for pp_ in parts_):
                            generic_arm = at_.args[2] if ca_.name == 'or' else at_.args[1]
                            special_arm = at_.args[1] if ca_.name == 'or' else at_.args[2]
                            rg_ = decide_equal(subst(a, {k: generic_arm}), subst(b, {k: generic_arm}), budget)
                            if rg_ == 'different':
                                return 'different'
                            if rg_ == 'equal':
                                res_ = []
                                for sid_, val_, _t in parts_:
                                    try:
                                        vv_ = val_ if isinstance(val_, Rat) else C(val_)
                                        pa_ = subst(subst(a, {k: special_arm}), {sid_: vv_})
                                        pb_ = subst(subst(b, {k: special_arm}), {sid_: vv_})
                                    except ZeroDivisionError:
                                        res_.append('unknown')
                                        continue
                                    res_.append(decide_equal(pa_, pb_, budget))
                                if 'different' in res_:
                                    return 'different'
                                if all(r_ == 'equal' for r_ in res_):
                                    return 'equal'
                        return 'unknown'
                    sp_ = _special_point(ca_) if ca_ is not None else None
                    if sp_ is not None and _DECIDE_DEPTH[0] < 12:
                        # an equality / truthiness test of one input: the arm taken away from the special value must agree everywhere,
                        # the other arm at the special value
                        sid_, val_, special_is_true = sp_
                        generic_arm = at_.args[2] if special_is_true else at_.args[1]
                        special_arm = at_.args[1] if special_is_true else at_.args[2]
                        rg_ = decide_equal(subst(a, {k: generic_arm}), subst(b, {k: generic_arm}), budget)
                        if rg_ == 'different':
                            return 'different'
                        if rg_ == 'equal':
                            try:
                                vv_ = val_ if isinstance(val_, Rat) else C(val_)
                                pa_ = subst(subst(a, {k: special_arm}), {sid_: vv_})
                                pb_ = subst(subst(b, {k: special_arm}), {sid_: vv_})
                            except ZeroDivisionError:
                                return 'unknown'
                            rs_ = decide_equal(pa_, pb_, budget)
                            if rs_ in ('equal', 'different'):
                                return rs_
                    return 'unknown'
            if _why is not None and not _why:
                _why.append((a, b))
            return 'different'
    finally:
        _DECIDE_DEPTH[0] -= 1


# ---------------------------------------------------------------------------------------- polynomials
# monomial key: (atoms, ekey)   atoms = tuple of (atom id, exponent) sorted by id, ekey = frozenset of
# (atoms-tuple, GQ) items of the exponent polynomial (empty frozenset = no exponential)

NOEXP = frozenset()
MONO1 = ((), NOEXP)


def _mul_atoms(a, b):
    if not a:
        return b
    if not b:
        return a
    d = dict(a)
    for k, e in b:
        v = d.get(k, 0) + e
        if v:
            d[k] = v
        else:
            d.pop(k, None)
    return tuple(sorted(d.items()))


def _add_ekey(a, b):
    if not a:
        return b
    if not b:
        return a
    d = dict(a)
    for k, c in b:
        v = d.get(k)
        v = c if v is None else v + c
        if v:
            d[k] = v
        else:
            d.pop(k, None)
    return frozenset(d.items())


class Poly(object):
    __slots__ = ('t', '_h')

    def __init__(self, terms=None):
        self.t = terms if terms is not None else {}
        self._h = None

    @staticmethod
    def const(c):
        c = gq(c)
        return Poly({MONO1: c}) if c else Poly({})

    @staticmethod
    def atom(a, e=1):
        return Poly({(((a.id, e),), NOEXP): ONE})

    def is_zero(self):
        return not self.t

    def is_const(self):
        return not self.t or (len(self.t) == 1 and MONO1 in self.t)

    def const_value(self):
        return self.t.get(MONO1, ZERO)

    def __add__(self, o):
        d = dict(self.t)
        for m, c in o.t.items():
            v = d.get(m)
            v = c if v is None else v + c
            if v:
                d[m] = v
            else:
                d.pop(m, None)
        return Poly(d)

    def __neg__(self):
        return Poly(dict((m, -c) for m, c in self.t.items()))

    def __sub__(self, o):
        return self + (-o)

    def scale(self, c):
        c = gq(c)
        if not c:
            return Poly({})
        return Poly(dict((m, v * c) for m, v in self.t.items()))

    def __mul__(self, o):
        if len(self.t) > len(o.t):
            self, o = o, self
        d = {}
        for (a1, e1), c1 in self.t.items():
            for (a2, e2), c2 in o.t.items():
                m = (_mul_atoms(a1, a2), _add_ekey(e1, e2))
                v = d.get(m)
                c = c1 * c2
                v = c if v is None else v + c
                if v:
                    d[m] = v
                else:
                    d.pop(m, None)
        return Poly(d)

    def __eq__(self, o):
        return isinstance(o, Poly) and self.t == o.t

    def __hash__(self):
        if self._h is None:
            self._h = hash(frozenset(self.t.items()))
        return self._h

    def key(self):
        return frozenset(self.t.items())

    def mono_div(self, m, c):
        """divide by the monomial m with coefficient c"""
        a, e = m
        ia = tuple((k, -x) for k, x in a)
        ie = frozenset((k, -x) for k, x in e)
        ci = c.inv()
        d = {}
        for (a1, e1), c1 in self.t.items():
            d[(_mul_atoms(a1, ia), _add_ekey(e1, ie))] = c1 * ci
        return Poly(d)

    def atoms(self):
        s = set()
        for (a, e) in self.t:
            for k, _ in a:
                s.add(k)
            for ak, _ in e:
                for k, _ in ak:
                    s.add(k)
        return s

    def has_exp(self):
        return any(e for (a, e) in self.t)

    def lead(self):
        """deterministic leading monomial"""
        return min(self.t, key=_mono_order)

    def __repr__(self):
        return fmt_poly(self)


def _mono_order(m):
    a, e = m
    return (len(a) + len(e), a, sorted((ak, (c.re, c.im)) for ak, c in e))


# ---------------------------------------------------------------------------------------- rational functions

class Rat(object):
    __slots__ = ('num', 'den')

    def __init__(self, num, den=None, _norm=True):
        self.num = num
        self.den = den if den is not None else Poly.const(1)
        if _norm:
            self._normalize()

    def _normalize(self):
        if self.num.is_zero():
            self.den = Poly.const(1)
            return
        d = self.den
        if len(d.t) == 1:
            (m, c), = d.t.items()
            if m != MONO1 or c != ONE:
                self.num = self.num.mono_div(m, c)
                self.den = Poly.const(1)
            return
        if self.num == d:
            self.num = Poly.const(1)
            self.den = Poly.const(1)
            return
        if len(self.num.t) <= 60 and len(d.t) <= 60:
            cn = _univariate_cancel(self.num, d)
            if cn is not None:
                self.num, d = cn
                self.den = d
                if len(d.t) == 1:
                    (m, c), = d.t.items()
                    if m != MONO1 or c != ONE:
                        self.num = self.num.mono_div(m, c)
                        self.den = Poly.const(1)
                    return
        # make the denominator's leading coefficient 1
        lm = d.lead()
        c = d.t[lm]
        if c != ONE:
            self.num = self.num.scale(c.inv())
            self.den = d.scale(c.inv())

    # constructors
    @staticmethod
    def const(c):
        return Rat(Poly.const(c), None, False)

    @staticmethod
    def atom(a):
        return Rat(Poly.atom(a), None, False)

    @staticmethod
    def sym(name):
        return Rat.atom(TABLE.sym(name))

    def is_const(self):
        return self.den.is_const() and self.num.is_const()

    def const_value(self):
        """GQ value if constant else None"""
        if self.is_const():
            return self.num.const_value() / self.den.const_value() if not self.den.is_zero() else None
        return None

    def as_fraction(self):
        c = self.const_value()
        if c is not None and c.is_real():
            return c.re
        return None

    def __add__(self, o):
        if self.den == o.den:
            return Rat(self.num + o.num, self.den)
        return Rat(self.num * o.den + o.num * self.den, self.den * o.den)

    def __neg__(self):
        return Rat(-self.num, self.den, False)

    def __sub__(self, o):
        return self + (-o)

    def __mul__(self, o):
        if o.den.is_const() and self.den.is_const():
            return Rat(self.num * o.num, self.den * o.den)
        # cheap cancellation of identical factors
        if self.num == o.den:
            return Rat(o.num, self.den)
        if o.num == self.den:
            return Rat(self.num, o.den)
        return Rat(self.num * o.num, self.den * o.den)

    def inv(self):
        if self.num.is_zero():
            raise ZeroDivisionError('symbolic division by zero')
        return Rat(self.den, self.num)

    def __truediv__(self, o):
        return self * o.inv()

    def ipow(self, n):
        if n == 0:
            return Rat.const(1)
        if n < 0:
            return self.inv().ipow(-n)
        r = Rat.const(1)
        b = self
        while n:
            if n & 1:
                r = r * b
            n >>= 1
            if n:
                b = b * b
        return r

    def equals(self, o):
        if self.den == o.den:
            if self.num == o.num:
                return True
            return reduce_poly(self.num - o.num).num.is_zero()
        return reduce_poly(self.num * o.den - o.num * self.den).num.is_zero()

    def is_zero(self):
        return self.num.is_zero()

    def atoms(self, deep=True):
        s = self.num.atoms() | self.den.atoms()
        if deep:
            todo = list(s)
            while todo:
                a = TABLE.atoms[todo.pop()]
                if a.kind == 'fn':
                    for x in a.args:
                        if isinstance(x, Rat):
                            for k in x.num.atoms() | x.den.atoms():
                                if k not in s:
                                    s.add(k)
                                    todo.append(k)
        return s

    def __repr__(self):
        return fmt(self)

    __hash__ = None


def _uni(p):
    """(atom id, {power: Fraction}) when p is a real polynomial in one atom (Laurent allowed), else None"""
    aid = None
    out = {}
    for (a, e), c in p.t.items():
        if e or c.im:
            return None
        if not a:
            out[0] = c.re
            continue
        if len(a) != 1:
            return None
        if aid is None:
            aid = a[0][0]
        elif aid != a[0][0]:
            return None
        out[a[0][1]] = c.re
    return aid, out


def _pdivmod(a, b):
    """dense lists (low->high) of Fractions"""
    a = list(a)
    q = [Fraction(0)] * max(1, len(a) - len(b) + 1)
    while len(a) >= len(b) and any(a):
        while a and not a[-1]:
            a.pop()
        if len(a) < len(b):
            break
        k = len(a) - len(b)
        c = a[-1] / b[-1]
        q[k] = c
        for i, x in enumerate(b):
            a[i + k] -= c * x
        a.pop()
    while a and not a[-1]:
        a.pop()
    return q, a


def _pgcd(a, b):
    while b:
        _, r = _pdivmod(a, b)
        a, b = b, r
    if a:
        lc = a[-1]
        a = [x / lc for x in a]
    return a


def _univariate_cancel(num, den):
    un, ud = _uni(num), _uni(den)
    if un is None or ud is None:
        return None
    aid = un[0] if un[0] is not None else ud[0]
    if aid is None or (un[0] is not None and ud[0] is not None and un[0] != ud[0]):
        return None
    # shift to ordinary polynomials
    lo = min(min(un[1]), min(ud[1]))
    dn = {}
    A = [Fraction(0)] * (max(un[1]) - lo + 1)
    for k, c in un[1].items():
        A[k - lo] = c
    B = [Fraction(0)] * (max(ud[1]) - lo + 1)
    for k, c in ud[1].items():
        B[k - lo] = c
    while A and not A[-1]:
        A.pop()
    while B and not B[-1]:
        B.pop()
    g = _pgcd(A, B)
    if len(g) <= 1:
        if lo == 0:
            return None
        g = [Fraction(1)]
    qa, ra = _pdivmod(A, g)
    qb, rb = _pdivmod(B, g)
    if ra or rb:
        return None

    def mk(coefs):
        d = {}
        for k, c in enumerate(coefs):
            if c:
                d[(((aid, k),), NOEXP) if k else MONO1] = GQ(c)
        return Poly(d)
    return mk(qa), mk(qb)


def _find_sqrt_hit(poly):
    for (a, e) in poly.t:
        for k, x in a:
            if (x >= 2 or x <= -2):
                at = TABLE.atoms[k]
                if at.kind == 'fn' and at.name == 'sqrt':
                    return k
    return None


def _reduce_one(poly, hit):
    """rewrite s^(2q+r) -> (U/V)^q s^r for the sqrt atom `hit` (s^2 = U/V); returns (num Poly, den Poly)"""
    u = TABLE.atoms[hit].args[0]
    U, V = u.num, u.den
    groups = {}
    for (a, e), c in poly.t.items():
        x = dict(a).get(hit, 0)
        if x >= 2 or x <= -2:
            if x > 0:
                q, rem = divmod(x, 2)
            else:
                q, rem = -((-x) // 2), -((-x) % 2)
            rest = tuple((k, v) for k, v in a if k != hit)
            if rem:
                rest = tuple(sorted(rest + ((hit, rem),)))
        else:
            q = 0
            rest = a
        g = groups.setdefault(q, {})
        m = (rest, e)
        v = g.get(m)
        v = c if v is None else v + c
        if v:
            g[m] = v
        else:
            g.pop(m, None)
    qp = max([q for q in groups if q > 0] + [0])
    qn = max([-q for q in groups if q < 0] + [0])
    upow = {0: Poly.const(1)}
    vpow = {0: Poly.const(1)}
    for k in range(1, max(qp, qn) + 1):
        upow[k] = upow[k - 1] * U
        vpow[k] = vpow[k - 1] * V
    num = Poly({})
    for q, g in groups.items():
        pg = Poly(g)
        if q >= 0:
            fac = upow[q] * vpow[qp - q] * upow[qn]
        else:
            fac = vpow[-q] * vpow[qp] * upow[qn + q]
        num = num + pg * fac
    den = vpow[qp] * upow[qn]
    return num, den


def reduce_poly(p):
    """apply sqrt(u)^2 -> u until no sqrt atom has |exponent| >= 2. returns Rat"""
    num = p
    den = Poly.const(1)
    guard = 0
    while guard < 60:
        guard += 1
        hit = _find_sqrt_hit(num)
        if hit is not None:
            n2, d2 = _reduce_one(num, hit)
            num = n2
            den = den * d2
            continue
        hit = _find_sqrt_hit(den)
        if hit is not None:
            n2, d2 = _reduce_one(den, hit)
            den = n2
            num = num * d2
            continue
        break
    return Rat(num, den)


def simp(r):
    """full reduction of a Rat (sqrt powers)"""
    n = reduce_poly(r.num)
    d = reduce_poly(r.den)
    return n / d if not (d.num == Poly.const(1) and d.den == Poly.const(1)) else n


# ---------------------------------------------------------------------------------------- function constructors

def C(x):
    return Rat.const(x)


PI = None


def pi():
    return Rat.sym('pi')


def _needs_reduce(r):
    for poly in (r.num, r.den):
        for (a, e) in poly.t:
            for k, x in a:
                if (x >= 2 or x <= -2) and TABLE.atoms[k].kind == 'fn' and TABLE.atoms[k].name == 'sqrt':
                    return True
    return False


def norm(r):
    return simp(r) if _needs_reduce(r) else r


def _perfect_square(fr):
    import math
    if fr < 0:
        return None
    n, d = fr.numerator, fr.denominator
    rn, rd = math.isqrt(n), math.isqrt(d)
    if rn * rn == n and rd * rd == d:
        return Fraction(rn, rd)
    return None


def sqrt(r):
    r = norm(r)
    f = r.as_fraction()
    if f is not None:
        ps = _perfect_square(f)
        if ps is not None:
            return C(ps)
    # pull a rational content factor that is a perfect square out of the argument:  sqrt(c*u) = sqrt(c)*sqrt(u), c>0
    scale = Fraction(1)
    if r.den.is_const() and r.num.t:
        # content: make the leading coefficient 1 when it is a positive real perfect square multiple
        lm = r.num.lead()
        c = r.num.t[lm] / r.den.const_value()
        if c.is_real() and c.re > 0 and c.re != 1:
            ps = _perfect_square(c.re)
            if ps is not None:
                r = Rat(r.num.scale(GQ(1 / c.re)), r.den)
                scale = ps
    a = TABLE.fn('sqrt', (r,))
    res = Rat.atom(a)
    if scale != 1:
        res = res * C(scale)
    return res


def power(base, expo):
    """base ** expo for Rat base and Rat exponent (constant rational exponents only are expanded)"""
    e = expo.as_fraction()
    if e is None:
        # general power: exp(expo*log(base))
        return exp(expo * log(base))
    if e.denominator == 1:
        return norm(base.ipow(int(e)))
    if e.denominator == 2:
        k = e.numerator
        s = sqrt(base)
        # base^(k/2) = sqrt(base)^k
        return norm(s.ipow(k))
    return Rat.atom(TABLE.fn('pow', (norm(base), expo)))


def _odd(name, r):
    """f(-u) = -f(u) normalisation for odd functions: make the leading coefficient of the numerator 'positive'"""
    r = norm(r)
    if r.is_zero():
        return C(0)
    lm = r.num.lead()
    c = r.num.t[lm]
    neg = (c.re < 0) or (c.re == 0 and c.im < 0)
    if neg:
        return -Rat.atom(TABLE.fn(name, (-r,)))
    return Rat.atom(TABLE.fn(name, (r,)))


def atan(r):
    return _odd('atan', r)


def asin(r):
    return _odd('asin', r)


def acos(r):
    r = norm(r)
    return Rat.atom(TABLE.fn('acos', (r,)))


def atan2(y, x):
    y = norm(y)
    x = norm(x)
    return Rat.atom(TABLE.fn('atan2', (y, x)))


def log(r):
    r = norm(r)
    f = r.as_fraction()
    if f is not None and f == 1:
        return C(0)
    return Rat.atom(TABLE.fn('log', (r,)))


def fabs(r):
    r = norm(r)
    f = r.as_fraction()
    if f is not None:
        return C(abs(f))
    # |-u| = |u|
    lm = r.num.lead()
    c = r.num.t[lm]
    if (c.re < 0) or (c.re == 0 and c.im < 0):
        r = -r
    return Rat.atom(TABLE.fn('abs', (r,)))


def even_abs(r, _depth=0):
    """|u|^(2k) = u^(2k) for real u, at any depth: an absolute value that is only ever squared is the value itself"""
    if _depth > 6:
        return r
    if not any(TABLE.atoms[k_].kind == 'fn' and TABLE.atoms[k_].name == 'abs' for k_ in r.atoms(deep=True)):
        return r        # no absolute value anywhere inside: nothing to do (and nothing to walk)
    changed = [False]

    def fix(poly):
        out = Poly({})
        acc = C(0)
        for (mono, ex), c in poly.t.items():
            term = Rat(Poly({((), ex): c}))
            for ak, e in mono:
                at = TABLE.atoms[ak]
                if at.kind == 'fn' and at.name == 'abs' and e % 2 == 0 and len(at.args) == 1 and isinstance(at.args[0], Rat):
                    changed[0] = True
                    u = even_abs(at.args[0], _depth + 1)
                    p = C(1)
                    for _ in range(abs(e)):
                        p = p * u
                    term = term * p if e > 0 else term / p
                else:
                    term = term * Rat(Poly({(((ak, e),), NOEXP): ONE}))
            acc = acc + term
        return acc
    try:
        n_, d_ = fix(r.num), fix(r.den)
    except (ZeroDivisionError, RecursionError):
        return r
    if not changed[0]:
        # look inside function atoms (sqrt(|d|^2 + ...))
        def f(at):
            if at.kind == 'fn' and at.name != 'abs' and at.args and any(isinstance(x, Rat) for x in at.args):
                new_args = tuple(even_abs(x, _depth + 1) if isinstance(x, Rat) else x for x in at.args)
                if any(isinstance(x, Rat) and isinstance(y, Rat) and not x.equals(y) for x, y in zip(new_args, at.args)):
                    if at.name == 'def':
                        return None
                    ctor = {'sqrt': sqrt, 'atan': atan, 'asin': asin, 'acos': acos, 'log': log}.get(at.name)
                    if ctor is not None and len(new_args) == 1:
                        return ctor(new_args[0])
                    if at.name == 'atan2' and len(new_args) == 2:
                        return atan2(new_args[0], new_args[1])
                    return Rat.atom(TABLE.fn(at.name, new_args))
            return None
        try:
            return map_atoms(r, f)
        except RecursionError:
            return r
    return even_abs(n_ / d_, _depth + 1)


def opaque(name, args):
    return Rat.atom(TABLE.fn(name, tuple(norm(a) if isinstance(a, Rat) else a for a in args)))


def _as_expo_poly(r):
    """r must be a polynomial without exponentials and with constant denominator -> ekey; else None"""
    if not r.den.is_const() or r.num.has_exp():
        return None
    dc = r.den.const_value()
    d = {}
    for (a, e), c in r.num.t.items():
        d[a] = c / dc
    return d


def _drop_full_turns(r):
    """in an exponent: i * pi * q * mod(u, m) with q * m an even integer is i * pi * q * u up to whole turns (e^{2 pi i n} = 1, and
    mod(u, m) = u - m * floor(u / m)): the mod generator is replaced by its argument.  cos / sin of an angle reduced modulo 360 degrees
    are those of the angle itself."""
    if not r.den.is_const() or r.num.has_exp():
        return r
    pi_id = TABLE.syms['pi'].id if 'pi' in TABLE.syms else None
    if pi_id is None:
        return r
    dc = r.den.const_value()
    sub = {}
    for (atoms, ex), c in r.num.t.items():
        if ex or len(atoms) != 2:
            continue
        dd = dict(atoms)
        if dd.get(pi_id) != 1:
            continue
        other = [k for k in dd if k != pi_id]
        if len(other) != 1 or dd[other[0]] != 1:
            continue
        at = TABLE.atoms[other[0]]
        if at.kind != 'fn' or at.name != 'mod' or len(at.args) != 2 or not all(isinstance(x, Rat) for x in at.args):
            continue
        m = at.args[1].as_fraction()
        q = c / dc
        if m is None or q.re != 0:
            continue
        turns = q.im * m / 2
        if turns.denominator == 1:
            sub[other[0]] = at.args[0]
    # every occurrence of the generator in the exponent must be of that shape
    for (atoms, ex), c in r.num.t.items():
        for k, x in atoms:
            if k in sub:
                dd = dict(atoms)
                q = c / dc
                m = TABLE.atoms[k].args[1].as_fraction()
                if ex or len(atoms) != 2 or dd.get(pi_id) != 1 or x != 1 or q.re != 0 or (q.im * m / 2).denominator != 1:
                    sub.pop(k, None)
    if not sub:
        return r
    return _subst_top(r, sub)


def exp(r):
    """e**r as a normal form"""
    r = norm(r)
    if r.is_zero():
        return C(1)
    r = _drop_full_turns(r)
    d = _as_expo_poly(r)
    if d is None:
        return Rat.atom(TABLE.fn('exp', (r,)))
    result = C(1)
    keep = {}
    for a, c in d.items():
        done = False
        if len(a) == 1 and a[0][1] == 1:
            at = TABLE.atoms[a[0][0]]
            if at.kind == 'sym' and at.name == 'pi' and not c.re and (2 * c.im).denominator == 1:
                # e^{i pi k/2}: a quarter turn to the power k
                k = int(2 * c.im) % 4
                result = result * Rat.const((GQ(1), GQ(0, 1), GQ(-1), GQ(0, -1))[k])
                done = True
            if at.kind == 'fn':
                u = at.args[0] if at.args and isinstance(at.args[0], Rat) else None
                if at.name == 'atan' and not c.re and abs(c.im) == 1:
                    # e^{+-i atan u} = (1 +- i u)/sqrt(1+u^2)
                    s = C(1) + u * u
                    z = (C(1) + Rat.const(GQ(0, c.im)) * u) / sqrt(s)
                    result = result * z
                    done = True
                elif at.name == 'asin' and not c.re and abs(c.im) == 1:
                    z = sqrt(C(1) - u * u) + Rat.const(GQ(0, c.im)) * u
                    result = result * z
                    done = True
                elif at.name == 'acos' and not c.re and abs(c.im) == 1:
                    z = u + Rat.const(GQ(0, c.im)) * sqrt(C(1) - u * u)
                    result = result * z
                    done = True
                elif at.name == 'log' and not c.im and c.re.denominator == 1 and abs(c.re) == 1:
                    result = result * u.ipow(int(c.re))
                    done = True
        if not done:
            keep[a] = c
    if MONO1[0] in keep and False:
        pass
    if keep:
        const = keep.pop((), None)
        if const is not None:
            # e^{const}: keep as an atom factor
            result = result * Rat.atom(TABLE.fn('exp', (Rat.const(const),)))
        if keep:
            result = result * Rat(Poly({((), frozenset(keep.items())): ONE}), None, False)
    return norm(result)


_I = Rat.const(I)
_HALF = Rat.const(Fraction(1, 2))


def sin(r):
    a = exp(_I * r)
    b = exp(-(_I * r))
    return (a - b) * Rat.const(GQ(0, Fraction(-1, 2)))


def cos(r):
    return (exp(_I * r) + exp(-(_I * r))) * _HALF


def tan(r):
    a = exp(_I * r)
    b = exp(-(_I * r))
    return ((a - b) * Rat.const(GQ(0, -1))) / (a + b)


def sinh(r):
    return (exp(r) - exp(-r)) * _HALF


def cosh(r):
    return (exp(r) + exp(-r)) * _HALF


def tanh(r):
    a = exp(r)
    b = exp(-r)
    return (a - b) / (a + b)


def atanh(r):
    return _HALF * log(define((C(1) + r) / (C(1) - r)))


def asinh(r):
    return log(define(r + sqrt(define(C(1) + define(r * r)))))


def radians(r):
    return r * pi() * C(Fraction(1, 180))


def degrees(r):
    return r * C(180) / pi()


# ---------------------------------------------------------------------------------------- substitution, derivative

def map_atoms(r, f, _memo=None):
    """rebuild r replacing every atom a by f(a) (a Rat) - f receives the Atom after its own args were mapped"""
    _memo = {} if _memo is None else _memo

    def atom_val(k):
        if k in _memo:
            return _memo[k]
        a = TABLE.atoms[k]
        if a.kind == 'fn':
            nargs = tuple(map_atoms(x, f, _memo) if isinstance(x, Rat) else x for x in a.args)
            changed = any((isinstance(x, Rat) and not x.equals(y)) for x, y in zip(nargs, a.args))
            if changed:
                v = rebuild_fn(a.name, nargs)
                # f may further replace the rebuilt atom
                if len(v.num.t) == 1 and v.den.is_const():
                    (mm, cc), = v.num.t.items()
                    if len(mm[0]) == 1 and not mm[1] and mm[0][0][1] == 1 and cc == v.den.const_value():
                        fv = f(TABLE.atoms[mm[0][0][0]])
                        if fv is not None:
                            v = fv
                _memo[k] = v
                return v
        v = f(a)
        if v is None:
            v = Rat.atom(a)
        _memo[k] = v
        return v

    def poly_val(p):
        terms = []
        for (a, e), c in p.t.items():
            term = Rat.const(c)
            for k, x in a:
                term = term * atom_val(k).ipow(x)
            if e:
                ex = C(0)
                for ak, ec in e:
                    t2 = Rat.const(ec)
                    for k, x in ak:
                        t2 = t2 * atom_val(k).ipow(x)
                    ex = ex + t2
                term = term * exp(ex)
            terms.append(term)
        return sum_rats(terms)
    n = poly_val(r.num)
    if r.den.is_const():
        return norm(n * Rat.const(r.den.const_value().inv()))
    return norm(n / poly_val(r.den))


def rebuild_fn(name, args):
    f = {'sqrt': lambda a: sqrt(a[0]), 'atan': lambda a: atan(a[0]), 'asin': lambda a: asin(a[0]),
         'acos': lambda a: acos(a[0]), 'atan2': lambda a: atan2(a[0], a[1]), 'log': lambda a: log(a[0]),
         'abs': lambda a: fabs(a[0]), 'exp': lambda a: exp(a[0]), 'pow': lambda a: power(a[0], a[1])}.get(name)
    if f is not None:
        return f(args)
    return opaque(name, args)


def assume(r, cond, value):
    """simplify r under the assumption that the condition (a Rat that is a single condition atom) is True/False:
    every ite(cond, a, b) becomes a resp. b (also for the negated condition atom)"""
    ca = None
    if len(cond.num.t) == 1 and cond.den.is_const():
        (m, c), = cond.num.t.items()
        if len(m[0]) == 1 and not m[1]:
            ca = TABLE.atoms[m[0][0][0]]
    if ca is None:
        return r
    flip = {'lt': 'ge', 'ge': 'lt', 'le': 'gt', 'gt': 'le', 'eq': 'ne', 'ne': 'eq'}

    def f(a):
        if a.kind == 'fn' and a.name == 'ite' and isinstance(a.args[0], Rat):
            c0 = a.args[0]
            if c0.equals(cond):
                return a.args[1] if value else a.args[2]
            if ca.name in flip:
                neg = opaque(flip[ca.name], ca.args)
                if c0.equals(neg):
                    return a.args[2] if value else a.args[1]
        return None
    # iterate: replaced branches may contain further ites on the same condition
    prev = None
    cur = r
    for _ in range(6):
        nxt = map_atoms(cur, f)
        if nxt.num == cur.num and nxt.den == cur.den:
            break
        cur = nxt
    return cur


def subst(r, mapping):
    """mapping: {atom id: Rat}"""
    return map_atoms(r, lambda a: mapping.get(a.id))


def diff(r, atom_id):
    """d r / d atom  (atom must be a free symbol)"""
    def datom(k):
        a = TABLE.atoms[k]
        if k == atom_id:
            return C(1)
        if a.kind != 'fn':
            return C(0)
        if not any(isinstance(x, Rat) and atom_id in x.atoms() for x in a.args):
            return C(0)
        u = a.args[0]
        du = diff(u, atom_id)
        if a.name == 'def':
            return du
        if a.name == 'sqrt':
            return du / (C(2) * Rat.atom(a))
        if a.name == 'atan':
            return du / (C(1) + u * u)
        if a.name == 'asin':
            return du / sqrt(C(1) - u * u)
        if a.name == 'acos':
            return -du / sqrt(C(1) - u * u)
        if a.name == 'log':
            return du / u
        if a.name == 'exp':
            return du * Rat.atom(a)
        if a.name == 'atan2':
            y, x = a.args
            return (x * diff(y, atom_id) - y * diff(x, atom_id)) / (x * x + y * y)
        raise ValueError('cannot differentiate %s' % a.name)

    def dpoly(p):
        res = C(0)
        for (a, e), c in p.t.items():
            mono = Rat(Poly({(a, e): c}), None, False)
            # product rule over atoms
            for k, x in a:
                dk = datom(k)
                if not dk.is_zero():
                    rest = tuple((kk, xx - (1 if kk == k else 0)) for kk, xx in a)
                    rest = tuple((kk, xx) for kk, xx in rest if xx)
                    res = res + Rat(Poly({(rest, e): c * GQ(x)}), None, False) * dk
            if e:
                dex = C(0)
                for ak, ec in e:
                    for k, x in ak:
                        dk = datom(k)
                        if not dk.is_zero():
                            rest = tuple((kk, xx - (1 if kk == k else 0)) for kk, xx in ak)
                            rest = tuple((kk, xx) for kk, xx in rest if xx)
                            dex = dex + Rat(Poly({(rest, NOEXP): ec * GQ(x)}), None, False) * dk
                if not dex.is_zero():
                    res = res + mono * dex
        return res
    n, d = r.num, r.den
    dn = dpoly(n)
    if d.is_const():
        return norm(dn * Rat.const(d.const_value().inv()))
    dd = dpoly(d)
    N = Rat(n, None, False)
    D = Rat(d, None, False)
    return norm((dn * D - N * dd) / (D * D))


# ---------------------------------------------------------------------------------------- printing

def atom_str(a, depth):
    if a.kind == 'fn':
        if a.name == 'def':
            return 'D%d' % a.id
        if depth <= 0:
            return '%s#%d' % (a.name, a.id)
        return '%s(%s)' % (a.name, ', '.join(fmt(x, depth - 1) if isinstance(x, Rat) else str(x)[:80] for x in a.args))
    return a.name


def _fmt_atoms(a, depth=2):
    out = []
    for k, x in a:
        s = atom_str(TABLE.atoms[k], depth)
        out.append(s if x == 1 else '%s^%d' % (s, x))
    return '*'.join(out)


def fmt_poly(p, limit=24, depth=2):
    if not p.t:
        return '0'
    parts = []
    for (a, e) in sorted(p.t, key=_mono_order)[:limit]:
        c = p.t[(a, e)]
        bits = []
        if c != ONE or (not a and not e):
            bits.append(repr(c))
        if a:
            bits.append(_fmt_atoms(a, depth))
        if e:
            ex = ' + '.join(('%r*%s' % (ec, _fmt_atoms(ak, depth))) if ak else repr(ec) for ak, ec in sorted(e, key=lambda z: z[0]))
            bits.append('exp(%s)' % ex)
        parts.append('*'.join(bits))
    s = ' + '.join(parts)
    if len(p.t) > limit:
        s += ' + ...(%d terms)' % len(p.t)
    return s


def fmt(r, depth=2):
    if not isinstance(r, Rat):
        return repr(r)
    if r.den.is_const() and r.den.const_value() == ONE:
        return fmt_poly(r.num, depth=depth)
    return '(%s)/(%s)' % (fmt_poly(r.num, depth=depth), fmt_poly(r.den, depth=depth))


def describe(r, depth=3, defs=True):
    """multi-line description: the form plus the definitions it mentions (for reports)"""
    lines = [fmt(r, depth)]
    if defs:
        seen = set()
        todo = sorted(def_atoms(r))
        while todo and len(seen) < 12:
            k = todo.pop(0)
            if k in seen:
                continue
            seen.add(k)
            d = TABLE.atoms[k].args[0]
            lines.append('  D%d := %s' % (k, fmt(d, depth - 1)))
            todo.extend(sorted(def_atoms(d) - seen))
    return '\n'.join(lines)


# ---------------------------------------------------------------------------------------- real-form printing helper

def real_poly_in(r, atom_id):
    """if r is a polynomial in the single atom with rational coefficients: {power: Fraction}, else None"""
    if not r.den.is_const():
        return None
    dc = r.den.const_value()
    out = {}
    for (a, e), c in r.num.t.items():
        if e:
            return None
        c = c / dc
        if not c.is_real():
            return None
        if not a:
            out[0] = out.get(0, 0) + c.re
        elif len(a) == 1 and a[0][0] == atom_id:
            out[a[0][1]] = out.get(a[0][1], 0) + c.re
        else:
            return None
    return out


# ---------------------------------------------------------------------------------------- numeric evaluation of normal forms
class NotEvaluable(Exception):
    pass


def evalf(r, env, _memo=None):
    """complex floating value of a normal form; env: {atom id: number}.  Used only to exhibit a witness point at which two
    forms already known to be structurally different take macroscopically different values."""
    import cmath
    import math
    memo = {} if _memo is None else _memo

    def atom(k):
        if k in memo:
            return memo[k]
        a = TABLE.atoms[k]
        if k in env:
            v = complex(env[k])
        elif a.kind == 'sym':
            if a.name == 'pi':
                v = complex(math.pi)
            else:
                raise NotEvaluable(a.name)
        elif a.kind == 'fn':
            n = a.name
            if n == 'def':
                v = evalf(a.args[0], env, memo)
            elif n == 'ite' and len(a.args) == 3 and all(isinstance(x, Rat) for x in a.args):
                # lazily: only the arm that is taken needs a value
                c_ = evalf(a.args[0], env, memo)
                v = evalf(a.args[1] if abs(c_) != 0 else a.args[2], env, memo)
            else:
                args = [evalf(x, env, memo) if isinstance(x, Rat) else None for x in a.args]
                if any(x is None for x in args):
                    raise NotEvaluable(n)
                re = [x.real for x in args]
                if n == 'sqrt':
                    v = cmath.sqrt(args[0])
                elif n == 'atan':
                    v = complex(math.atan(re[0]))
                elif n == 'atan2':
                    v = complex(math.atan2(re[0], re[1]))
                elif n == 'asin':
                    v = complex(math.asin(max(-1.0, min(1.0, re[0]))))
                elif n == 'acos':
                    v = complex(math.acos(max(-1.0, min(1.0, re[0]))))
                elif n == 'log':
                    v = cmath.log(args[0])
                elif n == 'abs':
                    v = complex(abs(args[0]))
                elif n == 'exp':
                    v = cmath.exp(args[0])
                elif n == 'pow':
                    v = args[0] ** args[1]
                elif n == 'int':
                    v = complex(int(re[0]))
                elif n == 'nearest':
                    v = complex(round(re[0]))
                elif n == 'floor':
                    v = complex(math.floor(re[0]))
                elif n == 'ceil':
                    v = complex(math.ceil(re[0]))
                elif n == 'rnd':
                    v = complex(round(re[0], int(round(re[1]))))
                elif n == 'floordiv':
                    v = complex(re[0] // re[1])
                elif n == 'mod':
                    v = complex(re[0] % re[1])
                elif n in ('lt', 'le', 'gt', 'ge', 'eq', 'ne'):
                    v = complex(1 if {'lt': re[0] < re[1], 'le': re[0] <= re[1], 'gt': re[0] > re[1], 'ge': re[0] >= re[1],
                                      'eq': re[0] == re[1], 'ne': re[0] != re[1]}[n] else 0)
                elif n == 'and':
                    v = complex(1 if all(x != 0 for x in args) else 0)
                elif n == 'or':
                    v = complex(1 if any(x != 0 for x in args) else 0)
                elif n == 'not':
                    v = complex(0 if args[0] != 0 else 1)
                elif n == 'truthy':
                    v = complex(1 if args[0] != 0 else 0)
                elif n == 'ite':
                    v = args[1] if args[0] != 0 else args[2]
                else:
                    raise NotEvaluable(n)
        else:
            raise NotEvaluable(a.kind)
        memo[k] = v
        return v

    def poly(p):
        tot = 0j
        for (a, e), c in p.t.items():
            term = complex(float(c.re), float(c.im))
            for k, x in a:
                term *= atom(k) ** x
            if e:
                ex = 0j
                for ak, ec in e:
                    t2 = complex(float(ec.re), float(ec.im))
                    for k, x in ak:
                        t2 *= atom(k) ** x
                    ex += t2
                term *= cmath.exp(ex)
            tot += term
        return tot
    d = poly(r.den)
    if d == 0:
        raise NotEvaluable('division by zero')
    return poly(r.num) / d


def _shared_opaque(a, b):
    """ids of opaque generators (call atoms, items of call results, decoded bytes, ...) that occur in BOTH forms: for a witness they can
    take any value, the same on both sides"""
    known = {'def', 'sqrt', 'atan', 'atan2', 'asin', 'acos', 'log', 'abs', 'exp', 'pow', 'int', 'nearest', 'rnd', 'floordiv', 'mod', 'lt', 'le', 'gt', 'ge', 'eq', 'ne',
             'and', 'or', 'not', 'truthy', 'ite', 'floor', 'ceil'}

    def collect(r):
        out = set()
        for k in r.atoms(deep=True):
            at = TABLE.atoms[k]
            if at.kind == 'fn' and at.name not in known and not at.name.startswith(('ext:', 'array', 'strop', 'fstring')):
                out.add(k)
        return out
    ca, cb = collect(a), collect(b)
    free = ca & cb
    # file content read by one side only (a 'bytes' generator at an offset the other side never reads) is an independent input as well,
    # and so is anything decoded from it
    for mine, other in ((ca, cb), (cb, ca)):
        lonely_bytes = set(k for k in mine - other if TABLE.atoms[k].name == 'bytes')
        if not lonely_bytes:
            continue
        for k in mine - other:
            at = TABLE.atoms[k]
            if k in lonely_bytes:
                free.add(k)
                continue
            deps = set()
            for x in at.args:
                if isinstance(x, Rat):
                    deps |= set(x.atoms(deep=True))
            if deps & lonely_bytes:
                free.add(k)
    return free


def max_rel_diff(a, b, ranges, trials=8):
    """largest |a - b| / max(|a|, |b|) and largest |a - b| over deterministic sample points, with the point of the former; None when
    nothing could be evaluated"""
    ids = sorted(set(a.atoms(deep=True)) | set(b.atoms(deep=True)))
    syms = [TABLE.atoms[k] for k in ids if TABLE.atoms[k].kind == 'sym' and TABLE.atoms[k].name != 'pi']
    if any(s.name not in ranges for s in syms):
        return None
    shared = sorted(_shared_opaque(a, b))
    best = None
    for t in range(trials):
        env = {}
        for j, s in enumerate(syms):
            lo, hi = ranges[s.name]
            frac = ((t + 1) * 0.6180339887498949 + (j + 1) * 0.7548776662466927) % 1.0
            env[s.id] = lo + (hi - lo) * frac
        for j, k in enumerate(shared):
            env[k] = 0.3 + 0.6 * (((t + 1) * 0.5545497 + (j + 1) * 0.3819660) % 1.0)
        try:
            va, vb = evalf(a, env), evalf(b, env)
        except (NotEvaluable, ZeroDivisionError, OverflowError, ValueError):
            continue
        d = abs(va - vb)
        r = d / max(abs(va), abs(vb), 1e-300)
        if best is None or r > best[0]:
            best = (r, d, dict((s.name, env[s.id]) for s in syms), va, vb)
    return best


def numeric_witness(a, b, ranges, trials=6, rel=1e-8):
    """sample points (deterministic) of the free symbols; returns (point, value a, value b) when at two or more sampled points the
    values differ by more than rel (relative) - far above the rounding noise of evaluating the forms in double precision - else None.
    ranges: {symbol name: (lo, hi)}."""
    ids = sorted(set(a.atoms(deep=True)) | set(b.atoms(deep=True)))
    syms = [TABLE.atoms[k] for k in ids if TABLE.atoms[k].kind == 'sym' and TABLE.atoms[k].name != 'pi']
    if any(s.name not in ranges for s in syms):
        return None
    found = None
    hits = 0
    shared = sorted(_shared_opaque(a, b))
    for t in range(trials):
        env = {}
        for j, s in enumerate(syms):
            lo, hi = ranges[s.name]
            # low-discrepancy deterministic fractions
            frac = ((t + 1) * 0.6180339887498949 + (j + 1) * 0.7548776662466927) % 1.0
            env[s.id] = lo + (hi - lo) * frac
        for j, k in enumerate(shared):
            env[k] = 0.3 + 0.6 * (((t + 1) * 0.5545497 + (j + 1) * 0.3819660) % 1.0)
        try:
            va, vb = evalf(a, env), evalf(b, env)
        except (NotEvaluable, ZeroDivisionError, OverflowError, ValueError):
            continue
        scale = max(abs(va), abs(vb), 1e-30)
        if abs(va - vb) > rel * scale:
            hits += 1
            if found is None:
                found = (dict((s.name, env[s.id]) for s in syms), va, vb)
    return found if hits >= 2 else None


def numeric_agree(a, b, ranges, trials=5, rel=1e-7):
    """True when both forms are evaluable at every sampled point (at least three) and agree there within rel"""
    ids = sorted(set(a.atoms(deep=True)) | set(b.atoms(deep=True)))
    syms = [TABLE.atoms[k] for k in ids if TABLE.atoms[k].kind == 'sym' and TABLE.atoms[k].name != 'pi']
    n = 0
    shared = sorted(_shared_opaque(a, b))
    for t in range(trials):
        env = {}
        for j, s in enumerate(syms):
            lo, hi = ranges[s.name]
            frac = ((t + 1) * 0.6180339887498949 + (j + 1) * 0.7548776662466927) % 1.0
            env[s.id] = lo + (hi - lo) * frac
        for j, k in enumerate(shared):
            env[k] = 0.3 + 0.6 * (((t + 1) * 0.5545497 + (j + 1) * 0.3819660) % 1.0)
        try:
            va, vb = evalf(a, env), evalf(b, env)
        except (NotEvaluable, ZeroDivisionError, OverflowError, ValueError):
            continue
        n += 1
        if abs(va - vb) > rel * max(abs(va), abs(vb), 1e-30):
            return False
    return n >= 3
