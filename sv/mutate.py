"""AST-computed source variants (positive controls and the mutant self-test). Nothing is written to /repo."""
import ast
from .model import AnalysisError


def find_function(tree, qualname):
    parts = qualname.split('.')
    body = tree.body
    node = None
    for p in parts:
        node = None
        for st in body:
            if isinstance(st, (ast.FunctionDef, ast.ClassDef)) and st.name == p:
                node = st
                break
        if node is None:
            raise AnalysisError('anchor vanished: %s not found while building a control variant' % qualname)
        body = node.body
    return node


def replace_in_function(src, qualname, editor):
    """editor(fn_node) mutates the function's AST in place; returns new module source"""
    tree = ast.parse(src)
    fn = find_function(tree, qualname)
    editor(fn)
    ast.fix_missing_locations(tree)
    return ast.unparse(tree)


def edit_module(src, editor):
    tree = ast.parse(src)
    editor(tree)
    ast.fix_missing_locations(tree)
    return ast.unparse(tree)


class _Sub(ast.NodeTransformer):
    def __init__(self, pred, make, limit):
        self.pred = pred
        self.make = make
        self.limit = limit
        self.count = 0

    def visit(self, node):
        node = self.generic_visit(node)
        if (self.limit is None or self.count < self.limit) and self.pred(node):
            self.count += 1
            return self.make(node)
        return node


def substitute(fn_node, pred, make, limit=1, expect=None):
    """replace nodes matching pred by make(node) inside fn_node; returns number replaced"""
    t = _Sub(pred, make, limit)
    new_body = [t.visit(st) for st in fn_node.body]
    fn_node.body = new_body
    if expect is not None and t.count != expect:
        raise AnalysisError('control variant: expected %d replacement(s), did %d' % (expect, t.count))
    return t.count


def text_variant(repo, relpath, old, new, count=1):
    s = repo.sources[relpath]
    if s.count(old) < 1:
        raise AnalysisError('control variant: text %r not found in %s' % (old, relpath))
    return repo.variant({relpath: s.replace(old, new, count)})


def expr(src):
    return ast.parse(src, mode='eval').body


def stmt(src):
    return ast.parse(src).body[0]
