"""E3 - symbolic value numbering of straight-line numeric code (abstract evaluation, no execution).

Evaluates repository functions over the algebra of sv/alg.py:  assignments, tuples, arithmetic, math calls,
attribute reads through constructors, literal-range loops (unrolled), if/else (both branches, merged into
guarded ite(...) values), numpy literals (small symbolic matrices), calls to repository functions (inlined, or kept
as opaque call atoms with every formal parameter made explicit).  Loops that cannot be unrolled are summarised:
the variables they assign become fresh symbols  name@L<k>  and the loop body's transfer function is recorded.
Anything outside the subset becomes an Unknown atom - rules meeting one report UNDECIDED.
"""
import ast
from fractions import Fraction
from . import alg
from .alg import Rat, C
from .model import Func, Class, Module, Ext, ModuleConst, bind_call, stmt_text


# ------------------------------------------------------------------------------------------------ values
class Val(object):
    pass


class Tup(Val):
    def __init__(self, items, is_list=False):
        self.items = list(items)
        self.is_list = is_list


class Str(Val):
    def __init__(self, s):
        self.s = s


class NoneV(Val):
    pass


class Bool(Val):
    def __init__(self, b):
        self.b = bool(b)


class Obj(Val):
    def __init__(self, cls, fields=None, origin=None):
        self.cls = cls
        self.fields = fields if fields is not None else {}
        self.origin = origin


class Mat(Val):
    """n-d array of values stored as nested python lists; shape tuple"""

    def __init__(self, data, shape, origin=None):
        self.data = data
        self.shape = tuple(shape)
        self.origin = origin        # 'literal': np.array(<nested list>) - the element type is that of the listed values


class Closure(Val):
    def __init__(self, func=None, lam=None, env=None, module=None):
        self.func = func
        self.lam = lam
        self.env = env
        self.module = module


class Ref(Val):
    """reference to a global object: Func, Class, Module, Ext"""

    def __init__(self, target):
        self.target = target


class DictV(Val):
    def __init__(self, d):
        self.d = d


class NamedV(Val):
    """a record of named values (time.struct_time of a concrete date)"""

    def __init__(self, fields):
        self.fields = fields


class IteV(Val):
    def __init__(self, cond, a, b):
        self.cond = cond
        self.a = a
        self.b = b


class CallV(Val):
    """result of an opaque repository call"""

    def __init__(self, rat, name):
        self.rat = rat
        self.name = name


NONE = NoneV()


def valkey(v):
    """hashable, deterministic (within one run) key of a value"""
    if isinstance(v, Rat):
        return ('R', v.num.key(), v.den.key())
    if isinstance(v, Tup):
        return ('T',) + tuple(valkey(x) for x in v.items)
    if isinstance(v, Str):
        return ('S', v.s)
    if isinstance(v, NoneV):
        return ('N',)
    if isinstance(v, Bool):
        return ('B', v.b)
    if isinstance(v, Obj):
        if v.origin:
            return ('O', v.origin)
        return ('O', v.cls.name if v.cls is not None else '?', tuple(sorted((k, valkey(x)) for k, x in v.fields.items())))
    if isinstance(v, Mat):
        return ('M', v.shape, repr(_mat_map(v.data, valkey)))
    if isinstance(v, Ref):
        t = v.target
        return ('G', getattr(t, 'key', None) or getattr(t, 'name', repr(t)))
    if isinstance(v, IteV):
        return ('I', valkey(v.cond), valkey(v.a), valkey(v.b))
    if isinstance(v, CallV):
        return ('C', v.rat.num.key(), v.rat.den.key())
    if isinstance(v, Closure):
        return ('L', id(v))
    if isinstance(v, DictV):
        return ('D', tuple(sorted((repr(k), valkey(x)) for k, x in v.d.items())))
    if isinstance(v, FileV):
        return ('F', v.name)
    return ('?', repr(v))


def argkey(v):
    """representation of a value as an argument of an opaque atom: Rat stays Rat, everything else a string"""
    if isinstance(v, Rat):
        return v
    if isinstance(v, CallV):
        return v.rat
    if isinstance(v, Obj) and v.origin:
        return 'obj<%s>' % v.origin
    if isinstance(v, Str):
        return 'str<%s>' % v.s
    if isinstance(v, NoneV):
        return 'None'
    if isinstance(v, Bool):
        return str(v.b)
    k = valkey(v)
    s = repr(k)
    if len(s) > 200:
        import hashlib
        s = '%s<%s>' % (k[0], hashlib.sha1(s.encode()).hexdigest()[:16])
    return s


def _mat_map(data, f):
    if isinstance(data, list):
        return [_mat_map(x, f) for x in data]
    return f(data)


def same(a, b):
    if isinstance(a, Rat) and isinstance(b, Rat):
        return a.equals(b)
    if type(a) is not type(b):
        return False
    return valkey(a) == valkey(b)


class Outcome(object):
    __slots__ = ('env', 'returns', 'flow')

    def __init__(self, env, returns=None, flow='normal'):
        self.env = env              # None when the block never completes normally
        self.returns = returns or []   # list of (guards, value); guards = list of (cond Rat, polarity)
        self.flow = flow            # 'normal' | 'break' | 'continue' (only meaningful with env not None)


class LoopSummary(object):
    def __init__(self, index, node, pre, post, carried, kind):
        self.index = index
        self.node = node
        self.pre = pre          # {var: pre symbol Rat}
        self.post = post        # {var: value after one body execution, in terms of pre symbols}
        self.carried = carried  # list of variable names assigned in the loop
        self.kind = kind
        self.entry = {}         # {var: value on loop entry}
        self.test = None
        self.breaks = []        # conditions under which the body breaks
        self.cursor_delta = {}  # file name -> bytes consumed by one execution of the body
        self.cursor_start = None
        self.env_pre = None     # environment at the start of the body (carried variables = pre symbols)
        self.env_post = None


class Evaluator(object):
    def __init__(self, repo, opaque=(), summaries=None, inline_depth=6, role_classes=None):
        self.repo = repo
        self.opaque = set(opaque)           # qualnames of repository functions kept as opaque call atoms
        self.summaries = dict(DEFAULT_SUMMARIES)
        if summaries:
            self.summaries.update(summaries)
        self.inline_depth = inline_depth
        self.diagnostics = []               # (kind, where, message)
        self.roundings = []                 # (function qualname, digits, value, where)
        self.loops = {}                     # function key -> list of LoopSummary
        self.calls = []                     # (caller qualname, callee qualname, bound args dict, call node)
        self._const_cache = {}
        self.dates = {}                     # ordinal -> (y, m, d) for every date literal met
        self._stack = []
        self.unknown_count = 0
        self.assumed = []
        self.files = []                     # FileV objects created by open()
        self.last_env = None                # final environment of the outermost function evaluated last
        self.ext_summaries = {}             # external callable name -> function(ev, args, kwargs, node)
        self.raise_conds = []               # (function qualname, condition under which an `if ...: raise` fires incl. enclosing ifs, node)
        self._path = []                     # conditions of the enclosing if-branches
        self.call_paths = []                # for every entry of self.calls: the branch conditions under which the call is made
        self.dead_branches = []             # (function, if statement, value): tests decided by the enclosing conditions in exact arithmetic
        self._path_base = []                # per function frame: length of _path at entry
        self.fold_const_types = False       # type(<numeric constant>) folds to int / float
        self.rat_type_is_float = False      # type(<symbolic number>) folds to float (used where inputs are documented floats)
        self._assigned_cache = {}

    # -------------------------------------------------------------------------------------------- helpers
    def unknown(self, reason, node=None):
        self.unknown_count += 1
        w = ''
        if node is not None and self._stack:
            w = '%s:%d' % (self._stack[-1].module.relpath, getattr(node, 'lineno', 0))
        self.diagnostics.append(('unknown', w, reason))
        return Rat.atom(alg.TABLE.unknown(reason))

    def diag(self, kind, node, msg):
        w = ''
        if self._stack:
            w = '%s:%d' % (self._stack[-1].module.relpath, getattr(node, 'lineno', 0))
        self.diagnostics.append((kind, w, msg))

    def symbolic_object(self, cls, name, origin=None):
        """an instance of a repository class whose constructor parameters are free symbols name.param"""
        init = cls.init()
        args = {}
        for p in init.call_params():
            args[p.name] = Rat.sym('%s.%s' % (name, p.name))
        obj = Obj(cls, {}, origin or ('param:' + name))
        self._run_init(cls, obj, args)
        return obj

    def _run_init(self, cls, obj, args):
        init = cls.init()
        if init is None:
            return
        env = {init.params[0].name: obj}
        for p in init.call_params():
            if p.name in args:
                env[p.name] = args[p.name]
            elif p.default is not None:
                env[p.name] = self.eval_in_module(init.module, p.default)
            else:
                env[p.name] = self.unknown('missing constructor argument %s' % p.name)
        self._exec_function_body(init, env)

    # -------------------------------------------------------------------------------------------- module level
    def eval_in_module(self, module, expr, before=None):
        sc = _ModuleScope(module)
        sc.before = before
        return self.eval(expr, {}, sc)

    def global_value(self, module, name, node=None, before=None):
        g = self.repo.resolve_global(module, name)
        if g is None:
            return self.unknown('unresolved global %s' % name, node)
        if isinstance(g, ModuleConst) and before is not None and g.module is module and len(module.assigns.get(name, ())) > 1:
            # a module-level expression sees the binding that was in force when its own statement ran: a name bound again further down
            # (a constant "re-referenced" after its reverse was derived from it) denotes the EARLIER value up there
            earlier = [(v_, st_) for v_, st_ in module.assigns[name] if st_.lineno < before]
            if earlier and earlier[-1][1] is not g.stmt:
                v_, st_ = earlier[-1]
                g = ModuleConst(module, name, v_, st_)
                g._key_suffix = '@%d' % st_.lineno
        if isinstance(g, ModuleConst):
            k = g.key + getattr(g, '_key_suffix', '')
            if k not in self._const_cache:
                self._const_cache[k] = None
                v = self.eval_in_module(g.module, g.value, before=g.stmt.lineno)
                if isinstance(v, Obj) and v.origin is None:
                    v.origin = 'const:' + g.name
                self._const_cache[k] = v
            v = self._const_cache[k]
            if v is None:
                return self.unknown('recursive constant %s' % name, node)
            return v
        if isinstance(g, Ext) and g.name in ('math.pi', 'numpy.pi', 'cmath.pi'):
            return alg.pi()         # `from math import pi`
        return Ref(g)

    # -------------------------------------------------------------------------------------------- functions
    def _round_call(self, a, kwargs, node):
        """round(x[, d]) / numpy.round(x[, d]).  Every call is recorded in self.roundings.  At a CONFIRMED rounding site (the frozen table of the
        places where today's tree rounds, with the digits it uses there) the rounding is the identity of the exact model - the rules of the
        property judge its digits.  Anywhere else it is the function it is: rnd(x, d), a generator of its own, so a value that passes through a
        new or coarsened rounding is no longer the reference formula."""
        digits = None
        if len(a) > 1:
            digits = _const_int(a[1])
        elif 'ndigits' in kwargs:
            digits = _const_int(kwargs['ndigits'])
        fn = self._stack[-1].qualname if self._stack else '<module>'
        to_int = len(a) == 1 and not kwargs
        table = CONFIRMED_ROUNDINGS.get(fn)
        if table is None:
            # a helper that a confirmed rounding site calls (the rounding moved into `_advance(value)`): the site is the nearest caller that
            # is one - and the rounding is recorded under ITS name, so that the digit rules of the property still see it
            for fr_ in reversed(self._stack[:-1]):
                if fr_.qualname in CONFIRMED_ROUNDINGS:
                    table = CONFIRMED_ROUNDINGS[fr_.qualname]
                    fn = fr_.qualname
                    break
        if self._stack and not getattr(self._stack[-1].module, 'name', 'geodepy').startswith(('geodepy', 'api', 'Standalone')):
            # a reference formula of the checker (oracle module): its roundings are those of the reference
            table = 'any'
        if to_int:
            confirmed = False
        elif table == 'any':
            confirmed = True
        elif table is not None and digits is not None and digits >= min(table):
            confirmed = True
        else:
            confirmed = False

        def one(x):
            if not isinstance(x, Rat):
                return x
            self.roundings.append((fn, digits, x, getattr(node, 'lineno', 0)))
            f = x.as_fraction()
            if f is not None and digits is not None:
                q = Fraction(10) ** digits
                return C(Fraction(round(f * q), 1) / q)
            if to_int:
                # round to the nearest integer: a different function from truncation
                if f is not None:
                    return C(round(f))
                return alg.opaque('nearest', (x,))
            if confirmed or not ROUNDING_MODEL['on']:
                return x
            if digits is None:
                return alg.opaque('rnd?', (x,))
            return alg.opaque('rnd', (x, C(digits)))
        if isinstance(a[0], Mat):
            return Mat(_mat_map(a[0].data, one), a[0].shape)
        return one(a[0])

    def call_function(self, func, args, node=None):
        """args: {param name: value}; returns the (guarded) return value"""
        if len(self._stack) > 40:
            return self.unknown('inlining too deep at %s' % func.qualname, node)
        env = {}
        scope_env = None
        for p in func.params:
            if p.name in args:
                env[p.name] = args[p.name]
            elif p.default is not None:
                env[p.name] = self.eval_in_module(func.module, p.default)
            elif p.kind in ('vararg',):
                env[p.name] = Tup([])
            elif p.kind == 'kwarg':
                env[p.name] = DictV({})
            else:
                env[p.name] = self.unknown('missing argument %s of %s' % (p.name, func.qualname), node)
        return self._exec_function_body(func, env)

    def _exec_function_body(self, func, env):
        self._stack.append(func)
        self._path_base.append(len(self._path))
        try:
            out = self.exec_block(func.node.body, env, func)
            if len(self._stack) == 1:
                self.last_env = out.env if out.env is not None else (getattr(self, '_ret_env', None) or env)
            rets = list(out.returns)
            if out.env is not None:
                rets.append(([], NONE))
            return self.abstract(self._fold_returns(rets))
        finally:
            self._stack.pop()
            self._path_base.pop()

    def _fold_returns(self, rets):
        if not rets:
            return NONE
        val = rets[-1][1]
        for guards, v in reversed(rets[:-1]):
            cond = self._conj(guards)
            if cond is None:
                val = v    # unguarded earlier return: later ones unreachable
            else:
                val = self.ite(cond, v, val)
        return val

    def _conj(self, guards):
        conds = []
        for c, pol in guards:
            conds.append(c if pol else self.cnot(c))
        if not conds:
            return None
        r = conds[0]
        for c in conds[1:]:
            r = self.cand(r, c)
        return r

    # -------------------------------------------------------------------------------------------- conditions
    def cnot(self, c):
        if isinstance(c, Bool):
            return Bool(not c.b)
        a = _single_atom(c)
        if a is not None and a.kind == 'fn':
            flip = {'lt': 'ge', 'ge': 'lt', 'le': 'gt', 'gt': 'le', 'eq': 'ne', 'ne': 'eq'}
            if a.name in flip:
                return alg.opaque(flip[a.name], a.args)
            if a.name == 'not':
                return a.args[0]
        return alg.opaque('not', (c,))

    def cand(self, a, b):
        if isinstance(a, Bool):
            return b if a.b else a
        if isinstance(b, Bool):
            return a if b.b else b
        return alg.opaque('and', (a, b))

    def cor(self, a, b):
        if isinstance(a, Bool):
            return a if a.b else b
        if isinstance(b, Bool):
            return b if b.b else a
        return alg.opaque('or', (a, b))

    def ite(self, cond, a, b):
        if isinstance(cond, Bool):
            return a if cond.b else b
        if same(a, b):
            return a
        # canonical orientation of the test: ite(x != y, A, B) is ite(x == y, B, A), ite(not c, A, B) is ite(c, B, A) - an early return on
        # the equal case and a branch on the unequal case then give the same value
        cn_ = _single_atom(cond) if isinstance(cond, Rat) else None
        if cn_ is not None and cn_.kind == 'fn' and cn_.name == 'ne' and len(cn_.args) == 2 and 'None' not in cn_.args:
            return self.ite(alg.opaque('eq', cn_.args), b, a)
        if cn_ is not None and cn_.kind == 'fn' and cn_.name == 'not' and len(cn_.args) == 1 and isinstance(cn_.args[0], Rat):
            return self.ite(cn_.args[0], b, a)
        # ite(x is not None, x, None) == x   and   ite(x is None, None, x) == x
        ca = _single_atom(cond) if isinstance(cond, Rat) else None
        if ca is not None and ca.kind == 'fn' and ca.name in ('eq', 'ne') and len(ca.args) == 2 and 'None' in ca.args:
            other = ca.args[0] if ca.args[1] == 'None' else ca.args[1]
            val, non = (a, b) if ca.name == 'ne' else (b, a)
            if isinstance(non, NoneV) and isinstance(other, Rat) and isinstance(val, (Rat, CallV)):
                vr = val.rat if isinstance(val, CallV) else val
                if vr.equals(other):
                    return val
        if isinstance(a, CallV) and isinstance(b, Rat):
            a = a.rat
        if isinstance(b, CallV) and isinstance(a, Rat):
            b = b.rat
        if isinstance(a, Rat) and isinstance(b, Rat):
            return alg.opaque('ite', (cond, a, b))
        if isinstance(a, Tup) and isinstance(b, Tup) and len(a.items) == len(b.items):
            return Tup([self.ite(cond, x, y) for x, y in zip(a.items, b.items)], a.is_list)
        if isinstance(a, Mat) and isinstance(b, Mat) and a.shape == b.shape:
            return Mat(_mat_zip(a.data, b.data, lambda x, y: self.ite(cond, x, y)), a.shape)
        if isinstance(a, CallV) and isinstance(b, CallV):
            return CallV(alg.opaque('ite', (cond, a.rat, b.rat)), a.name)
        return IteV(cond, a, b)

    def truth(self, v, node=None):
        """value -> condition (Bool or Rat-condition)"""
        if isinstance(v, Bool):
            return v
        if isinstance(v, NoneV):
            return Bool(False)
        if isinstance(v, Str):
            return Bool(bool(v.s))
        if isinstance(v, Tup):
            return Bool(bool(v.items))
        if isinstance(v, Rat):
            f = v.const_value()
            if f is not None:
                return Bool(bool(f))
            a = _single_atom(v)
            if a is not None and a.kind == 'fn' and a.name in COND_NAMES:
                return v
            if a is not None and a.kind == 'fn' and a.name == 'ite' and len(a.args) == 3 and all(isinstance(x, Rat) for x in a.args):
                # the value of `x and Y` is ite(truthy(x), Y, x), of `x or Y` ite(truthy(x), x, Y): their truth is the conjunction / disjunction
                c0 = _single_atom(a.args[0])
                if c0 is not None and c0.kind == 'fn' and c0.name == 'truthy' and isinstance(c0.args[0], Rat):
                    if c0.args[0].equals(a.args[2]):
                        return self.cand(a.args[0], self.truth(a.args[1], node))
                    if c0.args[0].equals(a.args[1]):
                        return self.cor(a.args[0], self.truth(a.args[2], node))
            return alg.opaque('truthy', (v,))
        if isinstance(v, IteV):
            return self.ite(v.cond, self.truth(v.a), self.truth(v.b))
        if isinstance(v, (Obj, Mat, Closure, Ref, DictV, BoundMethod, BoundExt)):
            return Bool(True)
        if isinstance(v, CallV):
            return alg.opaque('truthy', (v.rat,))
        return alg.opaque('truthy', (argkey(v),))

    def compare(self, op, a, b, node=None):
        name = {ast.Lt: 'lt', ast.LtE: 'le', ast.Gt: 'gt', ast.GtE: 'ge', ast.Eq: 'eq', ast.NotEq: 'ne',
                ast.Is: 'eq', ast.IsNot: 'ne', ast.In: 'in', ast.NotIn: 'notin'}.get(type(op))
        if name is None:
            return self.unknown('comparison %s' % type(op).__name__, node)
        if isinstance(a, CallV):
            a = a.rat
        if isinstance(b, CallV):
            b = b.rat
        if isinstance(a, IteV):
            return self.ite(a.cond, self.compare(op, a.a, b, node), self.compare(op, a.b, b, node))
        if isinstance(b, IteV):
            return self.ite(b.cond, self.compare(op, a, b.a, node), self.compare(op, a, b.b, node))
        if name in ('in', 'notin'):
            if isinstance(b, Tup):
                hits = [self.compare(ast.Eq(), a, x, node) for x in b.items]
                r = Bool(False)
                for h in hits:
                    r = self.cor(r, h)
                return r if name == 'in' else self.cnot(r)
            rb = _single_atom(b) if isinstance(b, Rat) else None
            if rb is not None and rb.kind == 'fn' and rb.name == 'range' and len(rb.args) in (1, 2) and all(isinstance(x, Rat) for x in rb.args) and isinstance(a, Rat):
                lo, hi = (C(0), rb.args[0]) if len(rb.args) == 1 else rb.args
                r = self.cand(self.compare(ast.LtE(), lo, a, node), self.compare(ast.Lt(), a, hi, node))
                return r if name == 'in' else self.cnot(r)
            return alg.opaque(name, (argkey(a), argkey(b)))
        if isinstance(a, Tup) and isinstance(b, Tup) and name in ('eq', 'ne'):
            if len(a.items) != len(b.items):
                return Bool(name == 'ne')
            r = Bool(True)
            for x, y in zip(a.items, b.items):
                r = self.cand(r, self.compare(ast.Eq(), x, y, node))
            return r if name == 'eq' else self.cnot(r)
        if isinstance(a, Rat) and isinstance(b, Rat):
            d = a - b
            f = d.as_fraction()
            if f is not None:
                return Bool({'lt': f < 0, 'le': f <= 0, 'gt': f > 0, 'ge': f >= 0, 'eq': f == 0, 'ne': f != 0}[name])
            if d.is_zero():
                return Bool(name in ('le', 'ge', 'eq'))
            # a single-term difference c * m (c a real constant, possibly with powers of pi) has the sign of sgn(c) * m: `degrees(t) < 0` is
            # `t < 0`.  The comparison is brought to that form so that equal tests are equal atoms.
            if d.den.is_const() and len(d.num.t) == 1:
                (mono_, c_), = d.num.t.items()
                dc_ = d.den.const_value()
                if not mono_[1] and not c_.im and not dc_.im and dc_.re != 0 and mono_[0]:
                    pi_ = alg.TABLE.syms.get('pi')
                    rest_ = tuple((k_, e_) for k_, e_ in mono_[0] if pi_ is None or k_ != pi_.id)
                    if rest_ and (len(rest_) != len(mono_[0]) or c_.re / dc_.re not in (1, -1)):
                        sg_ = 1 if (c_.re / dc_.re) > 0 else -1
                        m_ = Rat(alg.Poly({(rest_, alg.NOEXP): alg.ONE}))
                        a, b = (m_ if sg_ > 0 else -m_), C(0)
            # canonical orientation: a < b  ==  lt(a, b); gt/ge are rewritten as lt/le with swapped sides
            if name == 'gt':
                return alg.opaque('lt', (b, a))
            if name == 'ge':
                return alg.opaque('le', (b, a))
            return alg.opaque(name, (a, b))
        if name in ('eq', 'ne'):
            ka, kb = valkey(a), valkey(b)
            pos = name == 'eq'
            nn_ = getattr(self, 'never_none', None)
            if nn_ and isinstance(a, NoneV) != isinstance(b, NoneV):
                # the caller of this evaluation states that these inputs are GIVEN (numbers): a test against None is decided
                o_ = b if isinstance(a, NoneV) else a
                so_ = _single_atom(o_) if isinstance(o_, Rat) else None
                if so_ is not None and so_.kind == 'sym' and so_.name in nn_:
                    return Bool(not pos)
            if isinstance(a, (Str, NoneV, Bool)) and isinstance(b, (Str, NoneV, Bool)):
                return Bool((ka == kb) == pos)
            if isinstance(a, NoneV) != isinstance(b, NoneV) and not isinstance(a, Rat) and not isinstance(b, Rat):
                return Bool(not pos)
            if isinstance(a, Ref) and isinstance(b, Ref):
                return Bool((ka == kb) == pos)
            if isinstance(a, Obj) and isinstance(b, Obj) and a.cls is not None and a.cls.find('__eq__') is not None and not getattr(self, '_in_eq', False):
                # the class says what equality is
                self._in_eq = True
                try:
                    r_ = self.invoke(a.cls.find('__eq__'), [a, b], {}, node)
                finally:
                    self._in_eq = False
                if isinstance(r_, Bool):
                    return Bool(r_.b == pos)
                if isinstance(r_, Rat):
                    return r_ if pos else self.cnot(r_)
            if isinstance(a, Obj) and isinstance(b, Obj) and a.origin and b.origin:
                if a.origin == b.origin:
                    return Bool(pos)
                if a.origin.startswith('const:') and b.origin.startswith('const:'):
                    return Bool(not pos)
            if isinstance(a, Obj) and isinstance(b, Obj) and a is not b and (a.cls is None or a.cls.find('__eq__') is None):
                # without an __eq__ two objects are equal only when they are the same object: one built by a constructor call here is
                # not a module-level constant (nor another constructed object)
                built_a, built_b = not a.origin, not b.origin
                const_a, const_b = bool(a.origin) and a.origin.startswith('const:'), bool(b.origin) and b.origin.startswith('const:')
                if (built_a and (built_b or const_b)) or (built_b and const_a):
                    return Bool(not pos)
            x, y = sorted([repr(ka), repr(kb)])
            if isinstance(a, Rat) or isinstance(b, Rat):
                return alg.opaque(name, (argkey(a), argkey(b)))
            return alg.opaque(name, (x, y))
        return alg.opaque(name, (argkey(a), argkey(b)))

    # -------------------------------------------------------------------------------------------- statements
    def exec_block(self, stmts, env, func):
        returns = []
        guards = []
        for st in stmts:
            out = self.exec_stmt(st, env, func)
            for g, v in out.returns:
                returns.append((guards + g, v))
            if out.env is None:
                return Outcome(None, returns)
            env = out.env
            if out.flow != 'normal':
                return Outcome(env, returns, out.flow)
            if out.returns:
                # continuing means none of the guarded returns was taken
                pass
        return Outcome(env, returns)

    def exec_stmt(self, st, env, func):
        if isinstance(st, ast.Assign):
            v = self.eval(st.value, env, func)
            for t in st.targets:
                self.assign(t, v, env, func)
            return Outcome(env)
        if isinstance(st, ast.AnnAssign):
            if st.value is not None:
                self.assign(st.target, self.eval(st.value, env, func), env, func)
            return Outcome(env)
        if isinstance(st, ast.AugAssign):
            cur = self.eval(_as_load(st.target), env, func)
            rhs_ = self.eval(st.value, env, func)
            if isinstance(cur, Mat) and isinstance(st.target, ast.Name) and input_typed(cur) and not integer_closed(rhs_) \
                    and not isinstance(st.op, (ast.MatMult,)):
                # numpy updates the array in place, in the array's own dtype: an array built from the caller's numbers is an integer array
                # when they are integers - adding a float to it raises (same-kind casting), and an element store truncates
                INPLACE_EVENTS.append((func, st, 'aug', cur, rhs_))
                if len(INPLACE_EVENTS) > 5000:
                    del INPLACE_EVENTS[:2500]
            v = self.binop(st.op, cur, rhs_, st)
            if isinstance(cur, Mat) and isinstance(v, Mat) and isinstance(st.target, ast.Name) and v.shape == cur.shape and v is not cur \
                    and not isinstance(st.op, ast.MatMult):
                # numpy updates the array IN PLACE: every other name bound to the same array (b = a; b *= 2) sees the new values
                cur.data = v.data
                return Outcome(env)
            self.assign(st.target, v, env, func)
            return Outcome(env)
        if isinstance(st, ast.Expr):
            if isinstance(st.value, ast.Constant):
                return Outcome(env)
            self.eval(st.value, env, func)
            return Outcome(env)
        if isinstance(st, ast.Return):
            v = self.eval(st.value, env, func) if st.value is not None else NONE
            if len(self._stack) == 1:
                self._ret_env = env         # the environment in force at the (last evaluated) return of the outermost function
            return Outcome(None, [([], v)])
        if isinstance(st, ast.Raise):
            if not self._path and not getattr(self, '_try_depth', 0):
                # no symbolic condition is open: with the (constant) inputs of this evaluation the statement IS reached
                if not hasattr(self, 'raised'):
                    self.raised = []
                self.raised.append((self._stack[-1].qualname if self._stack else '<module>', st))
            return Outcome(None, [])
        if isinstance(st, ast.Pass):
            return Outcome(env)
        if isinstance(st, ast.Break):
            return Outcome(env, [], 'break')
        if isinstance(st, ast.Continue):
            return Outcome(env, [], 'continue')
        if isinstance(st, ast.If):
            return self.exec_if(st, env, func)
        if isinstance(st, ast.For):
            return self.exec_for(st, env, func)
        if isinstance(st, ast.While):
            return self.exec_loop_summary(st, env, func, 'while')
        if isinstance(st, ast.FunctionDef):
            f = None
            if isinstance(func, Func):
                f = func.nested.get(st.name)
            env[st.name] = Closure(func=f or Func(func.module, st, None, func if isinstance(func, Func) else None), env=env)
            return Outcome(env)
        if isinstance(st, ast.With):
            for it in st.items:
                v = self.eval(it.context_expr, env, func)
                if it.optional_vars is not None:
                    self.assign(it.optional_vars, v, env, func)
            return self.exec_block(st.body, env, func)
        if isinstance(st, ast.Try):
            # `except AttributeError:` around a read of an attribute that a CONSTRUCTED object (its fields are known) does not have: the
            # handler is what runs
            n_diag = len(self.diagnostics)
            env_before = _copy_env(env)
            self._try_depth = getattr(self, '_try_depth', 0) + 1
            try:
                out = self.exec_block(st.body, env, func)
            finally:
                self._try_depth -= 1
            missing = [d_ for d_ in self.diagnostics[n_diag:] if d_[0] == 'attr']
            if missing:
                for h in st.handlers:
                    names_ = []
                    if h.type is None:
                        names_ = ['AttributeError']
                    else:
                        for x_ in ([h.type] if not isinstance(h.type, ast.Tuple) else h.type.elts):
                            names_.append(getattr(x_, 'id', getattr(x_, 'attr', '')))
                    if any(n_ in ('AttributeError', 'Exception', 'BaseException') for n_ in names_):
                        del self.diagnostics[n_diag:]
                        return self.exec_block(h.body, env_before, func)
            if out.env is not None and st.orelse:
                o2 = self.exec_block(st.orelse, out.env, func)
                return Outcome(o2.env, out.returns + o2.returns, o2.flow)
            return out
        if isinstance(st, (ast.Import, ast.ImportFrom, ast.Global, ast.Nonlocal, ast.Assert)):
            return Outcome(env)
        if isinstance(st, ast.Delete):
            for t in st.targets:
                if isinstance(t, ast.Name):
                    env.pop(t.id, None)
            return Outcome(env)
        self.diag('unknown', st, 'statement %s not handled' % type(st).__name__)
        return Outcome(env)

    def _sign_from_path(self, d):
        """strict sign (+1 / -1) of a form that is a single term c * product(atoms) when the sign of every atom is fixed by an enclosing
        branch condition (`x < 0`, `0 < x`) or by what it is (pi); None otherwise.  Exact arithmetic."""
        if not isinstance(d, Rat) or not d.den.is_const() or len(d.num.t) != 1:
            return None
        (mono, c), = d.num.t.items()
        if mono[1]:
            return None
        q = c / d.den.const_value()
        if not q.is_real() or q.re == 0:
            return None
        sign = 1 if q.re > 0 else -1
        known = {}
        for pc in self._path:
            a = _single_atom(pc) if isinstance(pc, Rat) else None
            if a is None or a.kind != 'fn' or a.name not in ('lt', 'gt') or len(a.args) != 2:
                continue
            l, r = a.args
            if not (isinstance(l, Rat) and isinstance(r, Rat)):
                continue
            for x, zero, sg in ((l, r, -1 if a.name == 'lt' else 1), (r, l, 1 if a.name == 'lt' else -1)):
                xa = _single_atom(x)
                if xa is not None and zero.is_zero():
                    known[xa.id] = sg
        for aid, e in mono[0]:
            at = alg.TABLE.atoms[aid]
            if at.kind == 'sym' and at.name == 'pi':
                continue
            if e % 2 == 0:
                continue
            if aid not in known:
                return None
            sign *= known[aid]
        return sign

    def _implied_by_path(self, cond):
        """an ordering test already decided by the enclosing branch conditions (in exact arithmetic): `t + 360 >= 360` under `t < 0` is
        False.  Such a test can only fire through floating-point rounding; the exact model drops the dead branch."""
        a = _single_atom(cond) if isinstance(cond, Rat) else None
        if a is None or a.kind != 'fn' or a.name not in ('lt', 'le', 'gt', 'ge') or len(a.args) != 2:
            return None
        if not (isinstance(a.args[0], Rat) and isinstance(a.args[1], Rat)):
            return None
        s = self._sign_from_path(a.args[0] - a.args[1])
        if s is None:
            return None
        return {'lt': s < 0, 'le': s < 0, 'gt': s > 0, 'ge': s > 0}[a.name]

    def exec_if(self, st, env, func):
        cond = self.truth(self.eval(st.test, env, func), st)
        if self._path and not isinstance(cond, Bool):
            imp = self._implied_by_path(cond)
            if imp is not None:
                self.dead_branches.append((self._stack[-1].qualname if self._stack else '?', st, imp))
                cond = Bool(imp)
        if any(isinstance(b, ast.Raise) for b in st.body):
            full = cond
            for c in reversed(self._path):
                full = self.cand(c, full)
            self.raise_conds.append((self._stack[-1].qualname if self._stack else '?', full, st))
        if isinstance(cond, Bool):
            return self.exec_block(st.body if cond.b else st.orelse, env, func)
        ea = _copy_env(env)
        eb = _copy_env(env)
        self._path.append(cond)
        try:
            oa = self.exec_block(st.body, ea, func)
        finally:
            self._path.pop()
        self._path.append(self.cnot(cond))
        try:
            ob = self.exec_block(st.orelse, eb, func)
        finally:
            self._path.pop()
        rets = [([(cond, True)] + g, v) for g, v in oa.returns] + [([(cond, False)] + g, v) for g, v in ob.returns]
        if oa.env is None and ob.env is None:
            return Outcome(None, rets)
        if oa.env is None:
            # the true-branch left: normal continuation happens under not(cond) only when it returned
            return Outcome(ob.env, rets, ob.flow)
        if ob.env is None:
            return Outcome(oa.env, rets, oa.flow)
        if oa.flow != ob.flow:
            self.diag('unknown', st, 'branches end with different control flow (%s / %s)' % (oa.flow, ob.flow))
            flow = oa.flow if oa.flow != 'normal' else ob.flow
            # conservative: keep merged env, remember a conditional break
            merged = self.merge_env(cond, oa.env, ob.env)
            merged['@condbreak'] = merged.get('@condbreak', []) + [(cond if oa.flow != 'normal' else self.cnot(cond), flow)]
            return Outcome(merged, rets, 'normal')
        return Outcome(self.merge_env(cond, oa.env, ob.env), rets, oa.flow)

    def merge_env(self, cond, ea, eb):
        out = {}
        for k in set(ea) | set(eb):
            if k.startswith('@'):
                out[k] = (ea.get(k) or []) + [x for x in (eb.get(k) or []) if x not in (ea.get(k) or [])]
                continue
            if k in ea and k in eb:
                a, b = ea[k], eb[k]
                out[k] = a if a is b else self.ite(cond, a, b)
            elif k in ea:
                out[k] = self.ite(cond, ea[k], Unbound(k))
            else:
                out[k] = self.ite(cond, Unbound(k), eb[k])
        return out

    # loops ------------------------------------------------------------------------------------------
    def exec_for(self, st, env, func):
        it = self.eval(st.iter, env, func)
        items = None
        if isinstance(it, Tup):
            items = it.items
        elif isinstance(it, Mat) and len(it.shape) >= 1 and it.shape[0] <= 64:
            items = [self.mat_index(it, [C(i_)], st) for i_ in range(it.shape[0])]
        elif isinstance(it, CallV) and getattr(it, 'arity', None):
            # the result of an opaque repository call whose every return is a tuple of one fixed length: its items by position
            items = _callv_items(it)
        if items is not None and len(items) <= 64 and not _has_break(st):
            for x in items:
                self.assign(st.target, x, env, func)
                out = self.exec_block(st.body, env, func)
                if out.returns:
                    self.diag('unknown', st, 'return inside an unrolled loop')
                if out.env is None:
                    return Outcome(None, out.returns)
                env = out.env
            if st.orelse:
                return self.exec_block(st.orelse, env, func)
            return Outcome(env)
        return self.exec_loop_summary(st, env, func, 'for')

    def exec_loop_summary(self, st, env, func, kind):
        assigned = sorted(_assigned_names(st))
        key = func.key if isinstance(func, Func) else 'module'
        lst = self.loops.setdefault(key, [])
        idx = len(lst) + 1
        pre = {}
        body_env = _copy_env(env)
        for v in assigned:
            s = Rat.sym('%s@L%d' % (v, idx))
            pre[v] = s
            body_env[v] = s
        summ = LoopSummary(idx, st, pre, {}, assigned, kind)
        for v in assigned:
            if v in env:
                summ.entry[v] = env[v]
        lst.append(summ)
        if kind == 'while':
            summ.test = self.truth(self.eval(st.test, body_env, func), st)
        else:
            tgt_names = [n.id for n in ast.walk(st.target) if isinstance(n, ast.Name)]
            for n in tgt_names:
                body_env[n] = Rat.sym('%s@L%d' % (n, idx))
        summ.env_pre = _copy_env(body_env)
        live = [f for f in self.files]
        starts = {}
        for fobj in live:
            starts[id(fobj)] = Rat.sym('cursor(%s)@L%d' % (fobj.name, idx))
            fobj.cursor = starts[id(fobj)]
        out = self.exec_block(st.body, body_env, func)
        summ.cursor_delta = {}
        for fobj in live:
            summ.cursor_delta[fobj.name] = fobj.cursor - starts[id(fobj)]
            summ.cursor_start = starts[id(fobj)]
            fobj.cursor = Rat.sym('cursor(%s)@afterL%d' % (fobj.name, idx))
        summ.env_post = out.env
        if out.env is not None:
            for v in assigned:
                if v in out.env:
                    summ.post[v] = out.env[v]
            summ.breaks = out.env.get('@condbreak', [])
        # after the loop: the carried variables hold their (unknown) final values
        for v in assigned:
            env[v] = Rat.sym('%s@L%d' % (v, idx))
        env.pop('@condbreak', None)
        rets = [([], v) for g, v in out.returns]
        if rets:
            self.diag('unknown', st, 'return inside a summarised loop')
        return Outcome(env, [])

    # assignment -------------------------------------------------------------------------------------
    def abstract(self, v):
        if isinstance(v, Rat):
            return alg.define(v)
        if isinstance(v, Tup):
            v.items = [self.abstract(x) for x in v.items]
            return v
        if isinstance(v, Mat):
            v.data = _mat_map(v.data, self.abstract)
            return v
        return v

    def assign(self, target, v, env, func):
        if isinstance(target, ast.Name):
            env[target.id] = self.abstract(v)
            return
        if isinstance(target, (ast.Tuple, ast.List)):
            n = len(target.elts)
            items = self.unpack(v, n, target)
            for t, x in zip(target.elts, items):
                if isinstance(t, ast.Starred):
                    self.assign(t.value, x, env, func)
                else:
                    self.assign(t, x, env, func)
            return
        if isinstance(target, ast.Attribute):
            o = self.eval(target.value, env, func)
            if isinstance(o, Obj):
                self.store_field(o, target.attr, v)
            else:
                self.diag('unknown', target, 'attribute store on %s' % type(o).__name__)
            return
        if isinstance(target, ast.Subscript):
            o = self.eval(target.value, env, func)
            idx = self.eval_index(target.slice, env, func)
            if isinstance(o, Mat):
                self.mat_store(o, idx, v, target)
            elif isinstance(o, DictV):
                k = _const_key(idx)
                if k is not None:
                    o.d[k] = v
            elif isinstance(o, Tup) and o.is_list:
                k = _const_int(idx)
                if k is not None and -len(o.items) <= k < len(o.items):
                    o.items[k] = v
            else:
                self.diag('unknown', target, 'subscript store on %s' % type(o).__name__)
            return
        self.diag('unknown', target, 'assignment target %s' % type(target).__name__)

    def store_field(self, o, attr, v):
        """attribute store; inside symbolic if-branches the old value survives where the branch is not taken"""
        old = o.fields.get(attr)
        base = self._path_base[-1] if self._path_base else 0
        conds = [c for c in self._path[base:] if not isinstance(c, Bool)]
        if old is not None and conds and old is not v:
            c = conds[0]
            for x in conds[1:]:
                c = self.cand(c, x)
            v = self.ite(c, v, old)
        o.fields[attr] = v

    def unpack(self, v, n, node):
        if isinstance(v, Tup):
            if len(v.items) == n:
                return v.items
            self.diag('shape', node, 'unpacking %d values into %d targets' % (len(v.items), n))
            return (v.items + [self.unknown('unpack', node)] * n)[:n]
        if isinstance(v, CallV):
            return [CallV(alg.opaque('item', (v.rat, C(i))), v.name) for i in range(n)]
        if isinstance(v, Mat) and len(v.shape) >= 1 and v.shape[0] == n:
            return [self.mat_index(v, [C(i)], node) for i in range(n)]
        if isinstance(v, IteV):
            a = self.unpack(v.a, n, node)
            b = self.unpack(v.b, n, node)
            return [self.ite(v.cond, x, y) for x, y in zip(a, b)]
        if isinstance(v, Rat):
            return [alg.opaque('item', (v, C(i))) for i in range(n)]
        return [self.unknown('unpack of %s' % type(v).__name__, node) for _ in range(n)]

    # -------------------------------------------------------------------------------------------- expressions
    def eval(self, e, env, func):
        m = getattr(self, 'e_' + type(e).__name__, None)
        if m is None:
            return self.unknown('expression %s' % type(e).__name__, e)
        return m(e, env, func)

    def e_Constant(self, e, env, func):
        v = e.value
        if isinstance(v, bool):
            return Bool(v)
        if isinstance(v, int):
            return C(v)
        if isinstance(v, float):
            return C(Fraction(repr(v)))
        if isinstance(v, str):
            return Str(v)
        if v is None:
            return NONE
        return self.unknown('constant %r' % (v,), e)

    def e_Name(self, e, env, func):
        if e.id in env:
            v = env[e.id]
            if isinstance(v, Unbound):
                self.diag('unbound', e, 'name %s may be unbound here' % e.id)
                return self.unknown('unbound %s' % e.id, e)
            return v
        if isinstance(func, _ModuleScope):
            return self.global_value(func.module, e.id, e, before=getattr(func, 'before', None))
        if isinstance(func, Func):
            k = id(func)
            if k not in self._assigned_cache:
                self._assigned_cache[k] = set(n.id for n in ast.walk(func.node) if isinstance(n, ast.Name) and isinstance(n.ctx, ast.Store))
            if e.id in self._assigned_cache[k]:
                self.diag('unbound', e, 'local variable %s is read on a path that never assigned it' % e.id)
                return self.unknown('unbound local %s' % e.id, e)
        # closure / enclosing scopes are copied into env at closure call time
        return self.global_value(func.module, e.id, e)

    def e_Tuple(self, e, env, func):
        items = []
        for x in e.elts:
            if isinstance(x, ast.Starred):
                v = self.eval(x.value, env, func)
                if isinstance(v, Tup):
                    items.extend(v.items)
                elif isinstance(v, CallV):
                    items.append(self.unknown('star-unpacking of opaque call', x))
                else:
                    items.append(self.unknown('star-unpacking', x))
            else:
                items.append(self.eval(x, env, func))
        return Tup(items)

    def e_List(self, e, env, func):
        t = self.e_Tuple(e, env, func)
        t.is_list = True
        return t

    def e_Set(self, e, env, func):
        return self.e_Tuple(e, env, func)

    def e_Dict(self, e, env, func):
        d = {}
        for k, v in zip(e.keys, e.values):
            kk = _const_key(self.eval(k, env, func)) if k is not None else None
            if kk is None:
                return self.unknown('dict with non-constant key', e)
            d[kk] = self.eval(v, env, func)
        return DictV(d)

    def e_JoinedStr(self, e, env, func):
        parts = []
        for v in e.values:
            if isinstance(v, ast.Constant):
                parts.append(Str(str(v.value)))
            else:
                pv = self.eval(v.value, env, func)
                if isinstance(pv, CallV):
                    pv = pv.rat
                if isinstance(pv, Rat) and v.format_spec is None and v.conversion == -1 and not getattr(self, 'const_as_float', False):
                    fr = pv.as_fraction()
                    if fr is not None and fr.denominator == 1:
                        pv = Str(str(int(fr)))      # an integer constant prints as its digits (same policy as str())
                parts.append(pv)
        if all(isinstance(p, Str) for p in parts):
            return Str(''.join(p.s for p in parts))
        if len(e.values) == 1 and isinstance(e.values[0], ast.FormattedValue) and isinstance(parts[0], Rat) and e.values[0].format_spec is not None:
            fs = e.values[0].format_spec
            if isinstance(fs, ast.JoinedStr) and len(fs.values) == 1 and isinstance(fs.values[0], ast.Constant) and isinstance(fs.values[0].value, str):
                import re as _re
                if _re.match(r'^\.\d+[fgeFGE]$', fs.values[0].value):
                    # a number rendered with a fixed count of decimals / significant digits: float() of it is a rounding
                    return alg.opaque('fmtnum', (parts[0], fs.values[0].value))
        return alg.opaque('fstring', tuple(argkey(p) for p in parts))

    def e_Lambda(self, e, env, func):
        return Closure(lam=e, env=env, module=func.module)

    def e_IfExp(self, e, env, func):
        c = self.truth(self.eval(e.test, env, func), e)
        if isinstance(c, Bool):
            return self.eval(e.body if c.b else e.orelse, env, func)
        return self.ite(c, self.eval(e.body, env, func), self.eval(e.orelse, env, func))

    def e_BoolOp(self, e, env, func):
        vals = [self.eval(v, env, func) for v in e.values]
        conds = [self.truth(v, e) for v in vals]

        def is_cond(v):
            if isinstance(v, Bool):
                return True
            if isinstance(v, Rat):
                a = _single_atom(v)
                return a is not None and a.kind == 'fn' and a.name in COND_NAMES
            return False
        if all(is_cond(v) for v in vals):
            r = conds[0]
            for c in conds[1:]:
                r = self.cand(r, c) if isinstance(e.op, ast.And) else self.cor(r, c)
            return r
        # value semantics: `a and b` is b when a is true else a; `a or b` is a when a is true else b
        r = vals[-1]
        for v, c in zip(reversed(vals[:-1]), reversed(conds[:-1])):
            if isinstance(e.op, ast.And):
                r = r if (isinstance(c, Bool) and c.b) else (v if isinstance(c, Bool) else self.ite(c, r, v))
            else:
                r = v if (isinstance(c, Bool) and c.b) else (r if isinstance(c, Bool) else self.ite(c, v, r))
        return r

    def e_UnaryOp(self, e, env, func):
        v = self.eval(e.operand, env, func)
        if isinstance(e.op, ast.Not):
            return self.cnot(self.truth(v, e))
        if isinstance(e.op, ast.UAdd):
            return v
        if isinstance(e.op, ast.USub):
            return self.neg(v, e)
        return self.unknown('unary %s' % type(e.op).__name__, e)

    def neg(self, v, node):
        if isinstance(v, Rat):
            return -v
        if isinstance(v, Mat):
            return Mat(_mat_map(v.data, lambda x: self.neg(x, node)), v.shape)
        if isinstance(v, Obj) and v.cls is not None and v.cls.find('__neg__') is not None:
            return self.invoke(v.cls.find('__neg__'), [v], {}, node)
        if isinstance(v, CallV):
            return CallV(-v.rat, v.name)
        if isinstance(v, IteV):
            return self.ite(v.cond, self.neg(v.a, node), self.neg(v.b, node))
        return self.unknown('negation of %s' % type(v).__name__, node)

    def e_BinOp(self, e, env, func):
        return self.binop(e.op, self.eval(e.left, env, func), self.eval(e.right, env, func), e)

    def binop(self, op, a, b, node):
        if isinstance(a, CallV):
            a = a.rat
        if isinstance(b, CallV):
            b = b.rat
        if isinstance(a, IteV) and isinstance(a.a, (Rat, Mat)) and isinstance(a.b, (Rat, Mat)):
            return self.ite(a.cond, self.binop(op, a.a, b, node), self.binop(op, a.b, b, node))
        if isinstance(b, IteV) and isinstance(b.a, (Rat, Mat)) and isinstance(b.b, (Rat, Mat)):
            return self.ite(b.cond, self.binop(op, a, b.a, node), self.binop(op, a, b.b, node))
        if isinstance(a, Rat) and isinstance(b, Rat):
            try:
                # canonical abstraction policy: the result of every operation is named when it is large, so the
                # folded form depends only on the sequence of operations, not on where variables are introduced
                if isinstance(op, (ast.Add, ast.Sub)) and getattr(self, 'dates_are_typed', False) and self.dates:
                    ka, kb = _const_int(a), _const_int(b)
                    if ka is not None and kb is not None:
                        da, db = ka in self.dates, kb in self.dates
                        if da != db and (isinstance(op, ast.Add) or da):
                            # date +/- days is a date again (dates are ordinals): remember it as one
                            import datetime as _dt
                            o_ = ka + kb if isinstance(op, ast.Add) else ka - kb
                            try:
                                d_ = _dt.date.fromordinal(o_)
                                self.dates[o_] = (d_.year, d_.month, d_.day)
                            except (ValueError, OverflowError):
                                pass
                if isinstance(op, ast.Add):
                    return alg.define(a + b)
                if isinstance(op, ast.Sub):
                    return alg.define(a - b)
                if isinstance(op, ast.Mult):
                    return alg.define(a * b)
                if isinstance(op, ast.Div):
                    if not b.is_const() and len(DIV_EVENTS) < 20000:
                        # remembered for the division rule: which construct divides by what, on which path
                        DIV_EVENTS.append((self._stack[-1] if self._stack else None, node, b, tuple(self._path), self))
                    return alg.define(a / b)
                if isinstance(op, ast.Pow):
                    return alg.define(alg.power(a, b))
                if isinstance(op, ast.Mod):
                    fa, fb = a.as_fraction(), b.as_fraction()
                    if fa is not None and fb is not None and fb != 0:
                        return C(fa % fb)
                    return alg.opaque('mod', (a, b))
                if isinstance(op, ast.FloorDiv):
                    fa, fb = a.as_fraction(), b.as_fraction()
                    if fa is not None and fb is not None and fb != 0:
                        return C(fa // fb)
                    return alg.opaque('floordiv', (a, b))
            except ZeroDivisionError:
                self.diag('unknown', node, 'symbolic division by zero')
                return self.unknown('division by zero', node)
            return self.unknown('operator %s' % type(op).__name__, node)
        if isinstance(a, Mat) or isinstance(b, Mat):
            return self.mat_binop(op, a, b, node)
        if isinstance(a, Str) and isinstance(op, ast.Mod) and isinstance(b, (Rat, CallV)):
            # '%.8g' % x / '%.3f' % x: a number rendered with a fixed count of significant digits / decimals (float() of it is a rounding)
            import re as _re
            m_ = _re.match(r'^%(\.\d+[fgeFGE])$', a.s)
            if m_:
                return alg.opaque('fmtnum', (b.rat if isinstance(b, CallV) else b, m_.group(1)))
        if isinstance(a, Str) and isinstance(b, Str) and isinstance(op, ast.Add):
            return Str(a.s + b.s)
        if isinstance(a, Tup) and isinstance(b, Tup) and isinstance(op, ast.Add):
            return Tup(a.items + b.items, a.is_list)
        if isinstance(a, Obj) and a.cls is not None:
            mname = {ast.Add: '__add__', ast.Sub: '__sub__', ast.Mult: '__mul__', ast.Div: '__truediv__', ast.Mod: '__mod__'}.get(type(op))
            if mname and a.cls.find(mname) is not None:
                m = a.cls.find(mname)
                return self.invoke(m, [a, b], {}, node)
        if isinstance(a, (Str,)) or isinstance(b, (Str,)):
            return alg.opaque('strop', (argkey(a), argkey(b)))
        return self.unknown('operator %s on %s,%s' % (type(op).__name__, type(a).__name__, type(b).__name__), node)

    def e_Compare(self, e, env, func):
        left = self.eval(e.left, env, func)
        res = None
        for op, c in zip(e.ops, e.comparators):
            right = self.eval(c, env, func)
            r = self.compare(op, left, right, e)
            res = r if res is None else self.cand(res, r)
            left = right
        return res

    def e_Attribute(self, e, env, func):
        # global dotted name first (math.pi, np.array, module.func)
        if isinstance(func, (Func, _ModuleScope)):
            root = e
            while isinstance(root, ast.Attribute):
                root = root.value
            if isinstance(root, ast.Name) and root.id not in env:
                g = self.repo.resolve_expr(func.module if not isinstance(func, _ModuleScope) else func.module, e)
                if g is not None and not isinstance(g, ModuleConst):
                    if isinstance(g, Ext) and g.name == 'math.pi':
                        return alg.pi()
                    return Ref(g)
        o = self.eval(e.value, env, func)
        return self.getattr(o, e.attr, e)

    def getattr(self, o, attr, node):
        if isinstance(o, Obj):
            if attr in o.fields:
                return o.fields[attr]
            if o.cls is not None and o.cls.find(attr) is not None:
                return BoundMethod(o, o.cls.find(attr))
            self.diag('attr', node, 'object of class %s has no attribute %s' % (o.cls.name if o.cls else '?', attr))
            return self.unknown('missing attribute %s' % attr, node)
        if isinstance(o, IteV):
            return self.ite(o.cond, self.getattr(o.a, attr, node), self.getattr(o.b, attr, node))
        if isinstance(o, NamedV) and attr in o.fields:
            return o.fields[attr]
        if isinstance(o, Mat):
            if attr == 'shape':
                return Tup([C(x) for x in o.shape])
            if attr == 'T':
                return self.mat_transpose(o, node)
            return BoundExt(o, attr)
        if isinstance(o, Rat):
            if attr == 'days':
                return o          # timedelta.days of a difference of date ordinals
            if attr in ('year', 'month', 'day'):
                k = _const_int(o)
                if k is not None and k in self.dates:
                    return C(self.dates[k][('year', 'month', 'day').index(attr)])
            a = _single_atom(o)
            if a is not None and a.kind == 'sym':
                return Rat.sym('%s.%s' % (a.name, attr))
            return BoundExt(o, attr)
        if isinstance(o, (Str, Tup, DictV, CallV, FileV)):
            return BoundExt(o, attr)
        if isinstance(o, Ref):
            t = o.target
            if isinstance(t, Module):
                return self.global_value(t, attr, node)
            if isinstance(t, Ext):
                return Ref(Ext(t.name + '.' + attr))
            if isinstance(t, Class) and attr in t.methods:
                return Ref(t.methods[attr])
        return self.unknown('attribute %s of %s' % (attr, type(o).__name__), node)

    def e_Subscript(self, e, env, func):
        o = self.eval(e.value, env, func)
        idx = self.eval_index(e.slice, env, func)
        return self.getitem(o, idx, e)

    def eval_index(self, s, env, func):
        if isinstance(s, ast.Tuple):
            return [self.eval_index(x, env, func) for x in s.elts]
        if isinstance(s, ast.Slice):
            lo = self.eval(s.lower, env, func) if s.lower is not None else None
            hi = self.eval(s.upper, env, func) if s.upper is not None else None
            step = self.eval(s.step, env, func) if s.step is not None else None
            return SliceV(lo, hi, step)
        return self.eval(s, env, func)

    def getitem(self, o, idx, node):
        if isinstance(o, IteV):
            return self.ite(o.cond, self.getitem(o.a, idx, node), self.getitem(o.b, idx, node))
        if isinstance(o, Tup):
            k = _const_int(idx)
            if k is not None:
                if -len(o.items) <= k < len(o.items):
                    return o.items[k]
                self.diag('shape', node, 'index %d out of range for a %d-tuple' % (k, len(o.items)))
                return self.unknown('index out of range', node)
            if isinstance(idx, SliceV):
                lo = _const_int(idx.lo) if idx.lo is not None else None
                hi = _const_int(idx.hi) if idx.hi is not None else None
                if (idx.lo is None or lo is not None) and (idx.hi is None or hi is not None) and idx.step is None:
                    return Tup(o.items[lo:hi], o.is_list)
            return alg.opaque('getitem', (argkey(o), argkey(idx) if not isinstance(idx, (list, SliceV)) else repr(idx)))
        if isinstance(o, Mat):
            return self.mat_index(o, idx if isinstance(idx, list) else [idx], node)
        if isinstance(o, DictV):
            k = _const_key(idx)
            if k is not None and k in o.d:
                return o.d[k]
            if k is None and isinstance(idx, Rat) and o.d:
                # symbolic key: guarded choice over the table
                items = list(o.d.items())
                val = items[-1][1]
                for kk, vv in reversed(items[:-1]):
                    val = self.ite(self.compare(ast.Eq(), idx, Str(kk) if isinstance(kk, str) else C(kk), node), vv, val)
                return val
            return self.unknown('dict lookup', node)
        if isinstance(o, CallV):
            k = _const_int(idx)
            if k is not None:
                return CallV(alg.opaque('item', (o.rat, C(k))), o.name)
        if isinstance(o, Rat):
            a = _single_atom(o)
            if a is not None and a.kind == 'sym':
                if isinstance(idx, list):
                    ks = [_const_int(i) for i in idx]
                    if all(k is not None for k in ks):
                        return Rat.sym('%s[%s]' % (a.name, ','.join(str(k) for k in ks)))
                else:
                    k = _const_int(idx)
                    if k is not None:
                        return Rat.sym('%s[%d]' % (a.name, k))
            if isinstance(idx, list):
                return alg.opaque('getitem', (o,) + tuple(argkey(i) for i in idx))
            if isinstance(idx, SliceV):
                return alg.opaque('getslice', (o, repr(idx)))
            return alg.opaque('getitem', (o, argkey(idx)))
        if isinstance(o, Str):
            k = _const_int(idx)
            if k is not None and -len(o.s) <= k < len(o.s):
                return Str(o.s[k])
            if isinstance(idx, SliceV):
                b = [None if x is None or isinstance(x, NoneV) else _const_int(x) for x in (idx.lo, idx.hi, idx.step)]
                raw = (idx.lo, idx.hi, idx.step)
                if all(bb is not None or r is None or isinstance(r, NoneV) for bb, r in zip(b, raw)):
                    return Str(o.s[slice(b[0], b[1], b[2])])
        return self.unknown('subscript of %s' % type(o).__name__, node)

    def e_ListComp(self, e, env, func):
        if len(e.generators) == 1 and not e.generators[0].ifs:
            g = e.generators[0]
            it = self.eval(g.iter, env, func)
            if isinstance(it, Mat) and len(it.shape) >= 1 and it.shape[0] <= 64:
                # iterating an array walks its first axis: rows of a matrix (arrays themselves), elements of a vector
                it = Tup([self.mat_index(it, [C(i_)], e) for i_ in range(it.shape[0])])
            elif isinstance(it, CallV) and getattr(it, 'arity', None):
                it = Tup(_callv_items(it))
            if isinstance(it, Tup):
                out = []
                for x in it.items:
                    env2 = dict(env)
                    self.assign(g.target, x, env2, func)
                    out.append(self.eval(e.elt, env2, func))
                return Tup(out, True)
        return self.unknown('comprehension', e)

    e_GeneratorExp = e_ListComp

    def e_Starred(self, e, env, func):
        return self.eval(e.value, env, func)

    # calls ------------------------------------------------------------------------------------------
    def e_Call(self, e, env, func):
        fv = self.eval(e.func, env, func)
        args = []
        for a in e.args:
            if isinstance(a, ast.Starred):
                v = self.eval(a.value, env, func)
                if isinstance(v, Tup):
                    args.extend(v.items)
                else:
                    args.append(self.unknown('*args', a))
            else:
                args.append(self.eval(a, env, func))
        kwargs = {}
        for kw in e.keywords:
            if kw.arg is None:
                self.diag('unknown', e, '**kwargs at call')
                continue
            kwargs[kw.arg] = self.eval(kw.value, env, func)
        if isinstance(e.func, ast.Name) and e.func.id == 'int' and len(args) == 1 and isinstance(args[0], Rat) and not kwargs:
            self._truncation_shadow(e, args[0], env)
        return self.apply(fv, args, kwargs, e, env)

    def _truncation_shadow(self, e, exact, env):
        """int(<constant expression>): the exact model truncates the exact value.  The program truncates the DOUBLE the expression evaluates to:
        when every name in the expression is bound to a constant the expression is folded a second time in IEEE double arithmetic, and a
        result that truncates differently (0.9999999999 for an exact 1) is recorded - int() of a quotient that is a whole number only in
        exact arithmetic."""
        fr = exact.as_fraction()
        if fr is None:
            return
        import math

        def fl(n):
            if isinstance(n, ast.Constant) and isinstance(n.value, (int, float)) and not isinstance(n.value, bool):
                return float(n.value) if isinstance(n.value, float) else n.value
            if isinstance(n, ast.Name):
                v = env.get(n.id)
                if isinstance(v, Rat):
                    f_ = v.as_fraction()
                    if f_ is not None:
                        return int(f_) if f_.denominator == 1 else float(f_)
                raise ValueError(n.id)
            if isinstance(n, ast.Attribute):
                v = self.eval(n, env, self._stack[-1] if self._stack else None)
                if isinstance(v, Rat) and v.as_fraction() is not None:
                    f_ = v.as_fraction()
                    return int(f_) if f_.denominator == 1 else float(f_)
                raise ValueError('attr')
            if isinstance(n, ast.UnaryOp) and isinstance(n.op, (ast.USub, ast.UAdd)):
                return -fl(n.operand) if isinstance(n.op, ast.USub) else fl(n.operand)
            if isinstance(n, ast.BinOp):
                a_, b_ = fl(n.left), fl(n.right)
                if isinstance(n.op, ast.Add):
                    return a_ + b_
                if isinstance(n.op, ast.Sub):
                    return a_ - b_
                if isinstance(n.op, ast.Mult):
                    return a_ * b_
                if isinstance(n.op, ast.Div):
                    return a_ / b_
                if isinstance(n.op, ast.FloorDiv):
                    return a_ // b_
                if isinstance(n.op, ast.Mod):
                    return a_ % b_
                if isinstance(n.op, ast.Pow):
                    return a_ ** b_
            if isinstance(n, ast.Call) and isinstance(n.func, ast.Name) and n.func.id in ('float', 'abs', 'int', 'round') and len(n.args) == 1 and not n.keywords:
                return {'float': float, 'abs': abs, 'int': int, 'round': round}[n.func.id](fl(n.args[0]))
            raise ValueError(type(n).__name__)
        try:
            fv_ = fl(e.args[0])
        except (ValueError, ZeroDivisionError, OverflowError, TypeError):
            return
        if isinstance(fv_, float) and math.isfinite(fv_) and int(fv_) != int(fr):
            TRUNC_EVENTS.append((self._stack[-1] if self._stack else None, e, fr, fv_, dict((k, v) for k, v in env.items() if isinstance(v, Rat) and v.as_fraction() is not None and len(k) < 40)))

    def apply(self, fv, args, kwargs, node, cur_env=None):
        if isinstance(fv, IteV):
            return self.ite(fv.cond, self.apply(fv.a, args, kwargs, node, cur_env), self.apply(fv.b, args, kwargs, node, cur_env))
        if isinstance(fv, BoundMethod):
            return self.invoke(fv.method, [fv.obj] + args, kwargs, node)
        if isinstance(fv, BoundExt):
            return self.ext_method(fv.obj, fv.attr, args, kwargs, node)
        if isinstance(fv, Closure):
            if fv.lam is not None:
                env2 = dict(fv.env)
                ps = [a.arg for a in fv.lam.args.args]
                for p, v in zip(ps, args):
                    env2[p] = v
                return self.eval(fv.lam.body, env2, _ModuleScope(fv.module) if fv.module else self._stack[-1])
            f = fv.func
            base = fv.env
            if cur_env is not None and self._stack and f.parent is self._stack[-1]:
                base = cur_env      # called from its defining function: free variables see the current frame
            env2 = dict(base)
            ps = f.params
            for p, v in zip(ps, args):
                env2[p.name] = v
            for k, v in kwargs.items():
                env2[k] = v
            for p in ps[len(args):]:
                if p.name not in kwargs and p.default is not None:
                    env2[p.name] = self.eval(p.default, fv.env, f)
            return self._exec_function_body(f, env2)
        if isinstance(fv, Ref):
            t = fv.target
            if isinstance(t, Func):
                return self.invoke(t, args, kwargs, node)
            if isinstance(t, Class):
                return self.construct(t, args, kwargs, node)
            if isinstance(t, Ext):
                return self.ext_call(t.name, args, kwargs, node)
        if isinstance(fv, Rat):
            a = _single_atom(fv)
            if a is not None and a.kind == 'sym' and '.' in a.name:
                base, attr = a.name.rsplit('.', 1)
                return alg.opaque('method:' + attr, (Rat.sym(base),) + tuple(argkey(x) for x in args))
        return self.unknown('call of %s' % type(fv).__name__, node)

    def bind_values(self, f, args, kwargs, node, drop_self=False):
        ps = [p for p in f.params]
        bound = {}
        pos = [p for p in ps if p.kind == 'pos']
        i = 0
        for v in args:
            if i < len(pos):
                bound[pos[i].name] = v
                i += 1
            else:
                va = [p for p in ps if p.kind == 'vararg']
                if va:
                    bound.setdefault(va[0].name, Tup([])).items.append(v)
                else:
                    self.diag('shape', node, 'too many positional arguments for %s' % f.qualname)
        names = set(p.name for p in ps)
        for k, v in kwargs.items():
            if k in names:
                bound[k] = v
            else:
                self.diag('shape', node, 'unexpected keyword %s for %s' % (k, f.qualname))
        return bound

    def invoke(self, f, args, kwargs, node):
        bound = self.bind_values(f, args, kwargs, node)
        caller = self._stack[-1].qualname if self._stack else '<module>'
        full = dict(bound)
        for p in f.params:
            if p.name not in full and p.default is not None:
                full[p.name] = self.eval_in_module(f.module, p.default)
        self.calls.append((caller, f.qualname, full, node))
        self.call_paths.append(tuple(self._path))
        if f.qualname in self.summaries:
            r = self.summaries[f.qualname](self, f, full, node)
            if r is not NotImplemented:
                return r
        if f.qualname in self.opaque:
            # a freshly built DECAngle(d) handed to a module-level function stands for d: those functions pass their angle arguments through
            # angular_typecheck (object -> .dec() -> dec_angle), which the R-UNITS / R-DISPATCH rules check where it matters
            norm_ = _dec_object_is_its_degrees if f.cls is None else None
            keys = tuple(argkey(norm_(full.get(p.name, NONE)) if norm_ is not None else full.get(p.name, NONE)) for p in f.params)
            cv_ = CallV(alg.opaque('call:' + f.qualname, keys), f.qualname)
            cv_.arity = _return_arity(f)
            return cv_
        if sum(1 for s in self._stack if s is f) >= 2 or len(self._stack) > self.inline_depth + 8:
            keys = tuple(argkey(full.get(p.name, NONE)) for p in f.params)
            return CallV(alg.opaque('call:' + f.qualname, keys), f.qualname)
        return self.call_function(f, full, node)

    def construct(self, cls, args, kwargs, node):
        obj = Obj(cls, {})
        init = cls.init()
        if init is None:
            return obj
        bound = self.bind_values(init, [obj] + args, kwargs, node)
        bound.pop(init.params[0].name, None)
        caller = self._stack[-1].qualname if self._stack else '<module>'
        full = dict(bound)
        self.calls.append((caller, init.qualname, full, node))
        self.call_paths.append(tuple(self._path))
        if (cls.name + '.__init__') in self.summaries:
            r = self.summaries[cls.name + '.__init__'](self, init, full, node)
            if r is not NotImplemented:
                return r
        self._run_init(cls, obj, bound)
        return obj

    # external functions -----------------------------------------------------------------------------
    def ext_call(self, name, args, kwargs, node):
        if name in self.ext_summaries:
            r = self.ext_summaries[name](self, args, kwargs, node)
            if r is not NotImplemented:
                return r
        short = name.split('.')[-1]
        mod = name.rsplit('.', 1)[0] if '.' in name else ''
        a = args
        num = all(isinstance(x, Rat) for x in a)
        a = [x.rat if isinstance(x, CallV) else x for x in a]
        num = all(isinstance(x, Rat) for x in a)
        if mod in ('math', 'numpy', 'cmath') and num and short in MATH1 and len(a) == 1:
            res = MATH1[short](a[0])
            if short in ('sqrt', 'acos', 'asin', 'arccos', 'arcsin', 'log', 'log10', 'log2'):
                # remembered for the conditioning rule: which program construct produced this inverse-function generator
                MATH_CALLS.append((self._stack[-1] if self._stack else None, short, node, a[0], res))
                if len(MATH_CALLS) > 20000:
                    del MATH_CALLS[:10000]
            return alg.define(res)
        if mod == 'numpy' and short in ('round', 'around', 'round_') and a and isinstance(a[0], (Rat, Mat)):
            return self._round_call(a, dict(('ndigits' if k == 'decimals' else k, v) for k, v in kwargs.items()), node)
        if mod in ('math', 'numpy') and num and short == 'copysign' and len(a) == 2:
            # magnitude of the first argument with the sign of the second (the sign of a zero is not modelled)
            mag_ = alg.fabs(a[0])
            return self.ite(alg.opaque('lt', (a[1], C(0))), -mag_, mag_)
        if mod in ('math', 'numpy') and num and short in ('atan2', 'arctan2') and len(a) == 2:
            return alg.atan2(a[0], a[1])
        if mod in ('math', 'numpy') and num and short in ('pow', 'power') and len(a) == 2:
            return alg.power(a[0], a[1])
        if mod in ('math', 'numpy') and short in ('fmod', 'remainder', 'copysign') and num and len(a) == 2:
            # modelled as function symbols of their own (fmod takes the sign of the dividend, % that of the divisor: different functions)
            return alg.opaque(short, (a[0], a[1]))
        if mod == 'math' and short == 'hypot' and num:
            s = C(0)
            for x in a:
                s = s + x * x
            return alg.sqrt(s)
        if mod == 'copy' and short == 'copy' and len(a) == 1 and isinstance(a[0], Obj):
            return Obj(a[0].cls, dict(a[0].fields), origin=None)
        if mod == 'builtins':
            if short == 'float' and len(a) == 1:
                if isinstance(a[0], Rat):
                    fa_ = _single_atom(a[0])
                    if fa_ is not None and fa_.kind == 'fn' and fa_.name == 'fmtnum' and isinstance(fa_.args[0], Rat):
                        spec_ = fa_.args[1]
                        nd_ = int(spec_[1:-1])
                        if spec_[-1] in 'fF':
                            return self._round_call([fa_.args[0], C(nd_)], {}, node)
                        # significant digits, not decimals: a rounding whose granularity follows the magnitude
                        fn_ = self._stack[-1].qualname if self._stack else '<module>'
                        self.roundings.append((fn_, None, fa_.args[0], getattr(node, 'lineno', 0)))
                        return alg.opaque('rndsig', (fa_.args[0], C(nd_)))
                    return a[0]
                if isinstance(a[0], Str):
                    try:
                        return C(Fraction(a[0].s))
                    except Exception:
                        pass
                return alg.opaque('float', (argkey(a[0]),))
            if short == 'setattr' and len(a) == 3 and isinstance(a[0], Obj) and isinstance(a[1], Str):
                self.store_field(a[0], a[1].s, a[2])
                return NONE
            if short == 'vars' and len(a) == 1 and isinstance(a[0], Obj):
                return DictV(dict(a[0].fields))
            if short == 'getattr' and len(a) in (2, 3) and isinstance(a[1], Str) and isinstance(a[0], Obj) and a[0].cls is not None:
                if a[1].s in a[0].fields or a[1].s in a[0].cls.methods:
                    return self.getattr(a[0], a[1].s, node)
                if len(a) == 3:
                    return a[2]
            if short == 'abs' and num and len(a) == 1:
                return alg.fabs(a[0])
            if short == 'round' and a and isinstance(a[0], (Rat, Mat)):
                return self._round_call(a, kwargs, node)
            if short == 'int' and len(a) == 1:
                if isinstance(a[0], Rat):
                    sa_ = _single_atom(a[0])
                    if sa_ is not None and sa_.kind == 'fn' and sa_.name == 'nearest':
                        return a[0]
                    f = a[0].as_fraction()
                    if f is not None:
                        return C(int(f))
                    return alg.opaque('int', (a[0],))
                if isinstance(a[0], Str):
                    try:
                        return C(int(a[0].s))
                    except Exception:
                        pass
                return alg.opaque('int', (argkey(a[0]),))
            if short == 'open':
                f = FileV((alg.fmt(a[0], 1) if isinstance(a[0], Rat) else str(argkey(a[0]))) if a else '?')
                self.files.append(f)
                return f
            if short == 'range':
                ks = [_const_int(x) for x in a]
                if all(k is not None for k in ks) and 1 <= len(ks) <= 3:
                    return Tup([C(i) for i in range(*ks)])
                return alg.opaque('range', tuple(argkey(x) for x in a))
            if short == 'len' and len(a) == 1:
                if isinstance(a[0], Tup):
                    return C(len(a[0].items))
                if isinstance(a[0], Mat):
                    return C(a[0].shape[0])
                if isinstance(a[0], Str):
                    return C(len(a[0].s))
                return alg.opaque('len', (argkey(a[0]),))
            if short in ('tuple', 'list') and len(a) == 1 and isinstance(a[0], Tup):
                return Tup(list(a[0].items), short == 'list')
            if short == 'str' and len(a) == 1:
                if isinstance(a[0], Str):
                    return a[0]
                if isinstance(a[0], Rat) and a[0].as_fraction() is not None:
                    fr = a[0].as_fraction()
                    # ints print exactly; other constants are shown as python floats would print them
                    return Str(str(int(fr)) if fr.denominator == 1 and not getattr(self, 'const_as_float', False) else repr(float(fr)))
                return alg.opaque('str', (argkey(a[0]),))
            if short == 'type' and len(a) == 1 and isinstance(a[0], Rat) and _const_int(a[0]) is not None and _const_int(a[0]) in self.dates \
                    and getattr(self, 'dates_are_typed', False):
                return Ref(Ext('datetime.date'))
            if short == 'type' and len(a) == 1:
                if isinstance(a[0], Obj) and a[0].cls is not None:
                    return Ref(a[0].cls)
                if isinstance(a[0], NoneV):
                    return Ref(Ext('builtins.NoneType'))
                if isinstance(a[0], Str):
                    return Ref(Ext('builtins.str'))
                if isinstance(a[0], Bool):
                    return Ref(Ext('builtins.bool'))
                if isinstance(a[0], Mat):
                    return Ref(Ext('numpy.ndarray'))
                if isinstance(a[0], Rat) and self.fold_const_types and a[0].as_fraction() is not None:
                    return Ref(Ext('builtins.int' if a[0].as_fraction().denominator == 1 else 'builtins.float'))
                if isinstance(a[0], Rat) and self.rat_type_is_float:
                    return Ref(Ext('builtins.float'))
                return alg.opaque('type', (argkey(a[0]),))
            if short == 'isinstance' and len(a) == 2:
                if isinstance(a[0], Obj) and isinstance(a[1], Ref) and isinstance(a[1].target, Class):
                    return Bool(a[0].cls is a[1].target)
                if isinstance(a[0], Obj) and a[0].cls is not None:
                    # an object of a repository class against builtin types (or a tuple of classes): true when the class IS one of them
                    # or derives from it (class DECAngle(float): an instance is a float)
                    targets = a[1].items if isinstance(a[1], Tup) else [a[1]]
                    if all(isinstance(t_, Ref) and isinstance(t_.target, (Class, Ext)) for t_ in targets):
                        base_names = set()
                        for b_ in getattr(a[0].cls, 'bases', []) or []:
                            base_names.add(getattr(b_, 'id', None) or getattr(b_, 'attr', None))
                        hit = False
                        for t_ in targets:
                            if isinstance(t_.target, Class):
                                hit = hit or (a[0].cls is t_.target) or (t_.target.name in base_names)
                            else:
                                hit = hit or (t_.target.name.split('.')[-1] in base_names)
                        return Bool(hit)
                if isinstance(a[0], Rat) and isinstance(a[1], Ref) and isinstance(a[1].target, Ext) and a[0].as_fraction() is not None:
                    fr = a[0].as_fraction()
                    if a[1].target.name == 'builtins.int':
                        return Bool(fr.denominator == 1)
                    if a[1].target.name == 'builtins.float':
                        return Bool(fr.denominator != 1)
                if isinstance(a[0], Rat) and isinstance(a[1], Ref) and isinstance(a[1].target, Ext) and a[1].target.name in ('datetime.date', 'datetime.datetime') \
                        and getattr(self, 'dates_are_typed', False) and _const_int(a[0]) is not None and _const_int(a[0]) in self.dates:
                    return Bool(a[1].target.name == 'datetime.date')
                return alg.opaque('isinstance', (argkey(a[0]), argkey(a[1])))
            if short == 'bool' and len(args) == 1 and not kwargs:
                # bool(<comparison>) is the comparison (a condition value); bool(True) is True
                if isinstance(args[0], Bool):
                    return args[0]
                t_ = self.truth(args[0], node)
                if isinstance(t_, (Bool, Rat)):
                    return t_
            if short in ('min', 'max', 'sum', 'sorted', 'divmod', 'all', 'any', 'bool', 'zip', 'enumerate', 'print', 'repr', 'format'):
                if short == 'print':
                    return NONE
                if short in ('all', 'any') and len(a) == 1 and isinstance(a[0], Tup):
                    r = Bool(short == 'all')
                    for x in a[0].items:
                        r = self.cand(r, self.truth(x)) if short == 'all' else self.cor(r, self.truth(x))
                    return r
                if short in ('min', 'max') and len(a) >= 2 and num and not kwargs:
                    frs_ = [x.as_fraction() for x in a]
                    if all(fr_ is not None for fr_ in frs_):
                        # constants fold (the first of equal values is returned, as the builtin does - the values are equal anyway)
                        return C(min(frs_) if short == 'min' else max(frs_))
                if short == 'divmod' and len(a) == 2 and num:
                    fa, fb = a[0].as_fraction(), a[1].as_fraction()
                    if fa is not None and fb is not None and fb != 0:
                        return Tup([C(fa // fb), C(fa % fb)])
                    return Tup([alg.opaque('floordiv', (a[0], a[1])), alg.opaque('mod', (a[0], a[1]))])
                if short in ('zip', 'enumerate'):
                    a = [Tup(_callv_items(x)) if isinstance(x, CallV) and getattr(x, 'arity', None) else y for x, y in zip(args, a)]
                if short == 'zip' and all(isinstance(x, Tup) for x in a):
                    return Tup([Tup(list(t)) for t in zip(*[x.items for x in a])])
                if short == 'enumerate' and len(a) in (1, 2) and isinstance(a[0], Tup):
                    st_ = kwargs.get('start', a[1] if len(a) == 2 else C(0))
                    k0_ = _const_int(st_)
                    if k0_ is not None:
                        return Tup([Tup([C(i), x]) for i, x in enumerate(a[0].items, k0_)])
                return alg.opaque(short, tuple(argkey(x) for x in a))
        if mod == 'numpy' or name.startswith('numpy.'):
            r = self.numpy_call(short, a, kwargs, node)
            if r is not None:
                return r
        if name in ('datetime.date', 'datetime.datetime.date'):
            ks = [_const_int(x) for x in a]
            if len(ks) == 3 and all(k is not None for k in ks):
                # dates are modelled by their proleptic ordinal (a difference of dates is a number of days)
                try:
                    import datetime as _dt
                    o = _dt.date(*ks).toordinal()
                except ValueError:
                    self.diag('shape', node, 'invalid calendar date %s' % (ks,))
                    return self.unknown('invalid date', node)
                self.dates[o] = tuple(ks)
                return C(o)
        if name == 'datetime.timedelta':
            dv = kwargs.get('days', a[0] if a else C(0))
            if isinstance(dv, Rat) and not [k_ for k_ in kwargs if k_ != 'days'] and len(a) <= 1:
                return dv               # a difference of dates is a number of days (dates are ordinals)
        if name == 'warnings.warn':
            return NONE
        if name in ('decimal.Decimal', 'fractions.Fraction') and len(a) == 1:
            if isinstance(a[0], Str):
                try:
                    return C(Fraction(a[0].s))
                except Exception:
                    pass
            if isinstance(a[0], Rat):
                return a[0]
        return alg.opaque('ext:' + name, tuple(argkey(x) for x in a) + tuple('%s=%r' % (k, argkey(v)) for k, v in sorted(kwargs.items())))

    def ext_method(self, obj, attr, args, kwargs, node):
        if isinstance(obj, FileV):
            if attr == 'seek' and args and isinstance(args[0], Rat):
                whence = _const_int(args[1]) if len(args) > 1 else 0
                if whence == 1:
                    obj.cursor = obj.cursor + args[0]
                elif whence == 0:
                    obj.cursor = args[0]
                else:
                    self.diag('unknown', node, 'seek relative to the end of file')
                    obj.cursor = self.unknown('seek from end', node)
                return NONE
            if attr == 'read' and len(args) == 1 and isinstance(args[0], Rat):
                off = obj.cursor
                obj.reads.append((off, args[0]))
                obj.cursor = obj.cursor + args[0]
                return alg.opaque('bytes', (alg.norm(off), args[0]))
            if attr == 'tell':
                return obj.cursor
            if attr in ('close', '__enter__', '__exit__'):
                return NONE
        if isinstance(obj, Rat) and _const_int(obj) is not None and _const_int(obj) in self.dates and getattr(self, 'dates_are_typed', False):
            import datetime as _dt
            d_ = _dt.date.fromordinal(_const_int(obj))
            if attr == 'timetuple' and not args:
                return NamedV({'tm_year': C(d_.year), 'tm_mon': C(d_.month), 'tm_mday': C(d_.day), 'tm_yday': C(d_.timetuple().tm_yday), 'tm_wday': C(d_.weekday())})
            if attr == 'toordinal' and not args:
                return obj
            if attr == 'weekday' and not args:
                return C(d_.weekday())
        if isinstance(obj, Mat):
            if attr == 'transpose' and not args:
                return self.mat_transpose(obj, node)
            if attr == 'copy':
                c_ = Mat(_mat_map(obj.data, lambda x: x), obj.shape)
                c_.origin = getattr(obj, 'origin', None)      # a copy has the element type of what it copies
                return c_
            if attr == 'dot' and len(args) == 1:
                return self.matmul(obj, args[0], node)
        if isinstance(obj, Str):
            if attr in ('lower', 'upper', 'strip', 'lstrip', 'rstrip') and not args:
                return Str(getattr(obj.s, attr)())
            if attr == 'startswith' and len(args) == 1 and isinstance(args[0], Str):
                return Bool(obj.s.startswith(args[0].s))
        if isinstance(obj, Rat) and attr in ('__neg__', '__abs__', '__float__', '__pos__') and not args:
            return {'__neg__': lambda: -obj, '__abs__': lambda: alg.fabs(obj), '__float__': lambda: obj, '__pos__': lambda: obj}[attr]()
        if isinstance(obj, DictV) and attr in ('items', 'keys', 'values') and not args:
            if attr == 'items':
                return Tup([Tup([Str(k) if isinstance(k, str) else C(k), v]) for k, v in obj.d.items()], True)
            if attr == 'keys':
                return Tup([Str(k) if isinstance(k, str) else C(k) for k in obj.d], True)
            return Tup(list(obj.d.values()), True)
        if isinstance(obj, DictV) and attr == 'get' and args:
            k = _const_key(args[0])
            if k is not None:
                return obj.d.get(k, args[1] if len(args) > 1 else NONE)
        if isinstance(obj, Tup) and obj.is_list and attr == 'append' and len(args) == 1:
            obj.items.append(args[0])
            return NONE
        return alg.opaque('method:' + attr, (argkey(obj),) + tuple(argkey(x) for x in args))

    # numpy ------------------------------------------------------------------------------------------
    def numpy_call(self, short, a, kwargs, node):
        if short in ('array', 'asarray', 'matrix') and a:
            m_ = self.to_mat(a[0], node)
            if isinstance(m_, Mat) and ('dtype' in kwargs or len(a) > 1) and m_ is not a[0]:
                m_.origin = None        # an explicit element type
            return m_
        if short in ('zeros', 'ones', 'empty') and a:
            shp = a[0]
            dims = None
            if isinstance(shp, Tup):
                dims = [_const_int(x) for x in shp.items]
            elif _const_int(shp) is not None:
                dims = [_const_int(shp)]
            if dims and all(d is not None and d <= 64 for d in dims):
                fill = C(0 if short == 'zeros' else 1)
                serial = [0]
                self._uninit = getattr(self, '_uninit', 0) + 1
                tag = self._uninit

                def build(ds):
                    if not ds:
                        if short == 'empty':
                            # uninitialised memory: every cell is a value of its own that nothing determines
                            serial[0] += 1
                            return alg.opaque('uninit', (C(getattr(node, 'lineno', 0)), C(tag), C(serial[0])))
                        return fill
                    return [build(ds[1:]) for _ in range(ds[0])]
                return Mat(build(dims), dims)
        if short in ('zeros_like', 'ones_like', 'empty_like', 'full_like') and a and isinstance(a[0], Mat) and 'dtype' not in kwargs and len(a) <= (2 if short == 'full_like' else 1):
            # same shape AND same element type as the operand: of an array handed in by the caller (plain symbols) that type is the caller's -
            # integers stay integers, and an element store truncates
            src_ = a[0]
            fill_ = C(1) if short == 'ones_like' else (a[1] if short == 'full_like' and len(a) > 1 and isinstance(a[1], Rat) else C(0))
            nonconst_ = [False]

            def _look(x_):
                if isinstance(x_, Rat) and not x_.is_const():
                    nonconst_[0] = True
                return x_
            _mat_map(src_.data, _look)
            caller_typed = integer_closed(src_) and nonconst_[0] and src_.origin in (None, 'literal', 'like-input')
            self._uninit = getattr(self, '_uninit', 0) + 1
            tag_ = self._uninit
            ser_ = [0]

            def _cell(x_):
                if short == 'empty_like':
                    ser_[0] += 1
                    return alg.opaque('uninit', (C(getattr(node, 'lineno', 0)), C(tag_), C(ser_[0])))
                return fill_
            return Mat(_mat_map(src_.data, _cell), src_.shape, origin='like-input' if caller_typed else None)
        if short == 'diag' and len(a) == 1:
            # numpy.diag of a sequence of numbers: the diagonal matrix; of a square matrix: its diagonal
            v_ = a[0]
            items = None
            if isinstance(v_, Tup) and all(isinstance(x, (Rat, CallV)) for x in v_.items):
                items = [x.rat if isinstance(x, CallV) else x for x in v_.items]
            elif isinstance(v_, Mat) and len(v_.shape) == 1:
                items = list(v_.data)
            if items is not None and 0 < len(items) <= 16:
                n_ = len(items)
                return Mat([[items[i] if i == j else C(0) for j in range(n_)] for i in range(n_)], [n_, n_], origin='literal' if isinstance(v_, Tup) else None)
            if isinstance(v_, Mat) and len(v_.shape) == 2 and v_.shape[0] == v_.shape[1]:
                return Mat([v_.data[i][i] for i in range(v_.shape[0])], [v_.shape[0]])
        if short == 'isclose' and len(a) >= 2 and isinstance(a[0], Rat) and isinstance(a[1], Rat):
            # numpy.isclose / math.isclose of two numbers IS an ordering test: |a - b| <= atol + rtol |b| with numpy's defaults atol = 1e-8,
            # rtol = 1e-5 (math.isclose: rel_tol = 1e-9 of the larger magnitude, abs_tol = 0).  A branch on it is a tolerance band, not the
            # equality its name suggests
            from fractions import Fraction as _F
            is_np = getattr(node.func, 'value', None) is not None and getattr(node.func.value, 'id', '') in ('np', 'numpy')
            rt = kwargs.get('rtol', kwargs.get('rel_tol'))
            at = kwargs.get('atol', kwargs.get('abs_tol'))
            if len(a) > 2:
                rt = a[2]
            if len(a) > 3:
                at = a[3]
            rt = rt if isinstance(rt, Rat) else C(_F(1, 10 ** 5) if is_np else _F(1, 10 ** 9))
            at = at if isinstance(at, Rat) else C(_F(1, 10 ** 8) if is_np else 0)
            return self.compare(ast.LtE(), alg.fabs(a[0] - a[1]), at + rt * alg.fabs(a[1]), node)
        if short == 'pad' and len(a) >= 2 and isinstance(a[0], Mat) and len(a[0].shape) == 2 and isinstance(a[1], Tup) and not [k_ for k_ in kwargs if k_ not in ('mode', 'constant_values')]:
            # numpy.pad(m, ((top, bottom), (left, right))) with the default constant 0: the result has the ELEMENT TYPE OF m
            w_ = []
            for t_ in a[1].items:
                if isinstance(t_, Tup) and len(t_.items) == 2 and all(_const_int(x_) is not None for x_ in t_.items):
                    w_.append(tuple(_const_int(x_) for x_ in t_.items))
            if len(w_) == 2 and all(0 <= x_ <= 64 for t_ in w_ for x_ in t_) and isinstance(kwargs.get('mode', Str('constant')), Str) \
                    and kwargs.get('mode', Str('constant')).s == 'constant' and 'constant_values' not in kwargs:
                r_, c_ = a[0].shape
                rows = [[C(0)] * (w_[1][0] + c_ + w_[1][1]) for _ in range(w_[0][0])]
                for row in a[0].data:
                    rows.append([C(0)] * w_[1][0] + list(row) + [C(0)] * w_[1][1])
                rows += [[C(0)] * (w_[1][0] + c_ + w_[1][1]) for _ in range(w_[0][1])]
                return Mat(rows, (w_[0][0] + r_ + w_[0][1], w_[1][0] + c_ + w_[1][1]), 'literal')
        if short in ('matmul', 'dot') and len(a) == 2:
            return self.matmul(a[0], a[1], node)
        if short == 'transpose' and len(a) == 1 and isinstance(a[0], Mat):
            return self.mat_transpose(a[0], node)
        if short in ('diagflat', 'diag') and len(a) == 1 and isinstance(a[0], Mat):
            m = a[0]
            flat = None
            if len(m.shape) == 1:
                flat = list(m.data)
            elif len(m.shape) == 2 and (m.shape[1] == 1 or m.shape[0] == 1 or short == 'diagflat'):
                flat = [x for row in m.data for x in row]
            elif len(m.shape) == 2 and short == 'diag':
                n = min(m.shape)
                return Mat([m.data[i][i] for i in range(n)], (n,))
            if flat is not None:
                n = len(flat)
                return Mat([[flat[i] if i == j else C(0) for j in range(n)] for i in range(n)], (n, n))
        if short in ('any', 'all') and len(a) == 1 and not kwargs:
            v = a[0]
            if isinstance(v, NoneV):
                return Bool(False)
            if isinstance(v, Mat):
                flat = []

                def walk(d):
                    if isinstance(d, list):
                        for y in d:
                            walk(y)
                    else:
                        flat.append(d)
                walk(v.data)
                conds = [self.truth(x, node) for x in flat]
                if all(isinstance(c, Bool) for c in conds):
                    return Bool(any(c.b for c in conds) if short == 'any' else all(c.b for c in conds))
                acc = Bool(short == 'all')
                for c in conds:
                    acc = self.cor(acc, c) if short == 'any' else self.cand(acc, c)
                return acc
        if short in ('identity', 'eye') and a and _const_int(a[0]) is not None:
            n = _const_int(a[0])
            return Mat([[C(1 if i == j else 0) for j in range(n)] for i in range(n)], (n, n))
        return None

    def to_mat(self, v, node):
        if isinstance(v, Mat):
            return v

        def conv(x):
            if isinstance(x, Tup):
                return [conv(y) for y in x.items]
            if isinstance(x, Mat):
                return x.data
            return x

        def shape(d):
            if isinstance(d, list):
                if not d:
                    return (0,)
                s0 = shape(d[0])
                for y in d[1:]:
                    if shape(y) != s0:
                        return None
                return (len(d),) + s0
            return ()
        if isinstance(v, Tup):
            data = conv(v)
            shp = shape(data)
            if shp is None:
                self.diag('shape', node, 'ragged array literal')
                return self.unknown('ragged array', node)
            return Mat(data, shp, 'literal')
        return alg.opaque('array', (argkey(v),))

    def mat_index(self, m, idx, node):
        data = m.data
        shp = list(m.shape)
        # integer indices only (slices keep the axis)
        out_axes = []
        cur = data
        ks = []
        if any(isinstance(i, SliceV) for i in idx):
            rng = self._slice_ranges(m, idx, node)
            if rng is None:
                self.diag('unknown', node, 'slice of an array')
                return self.unknown('array slice', node)

            def take(d, rs):
                if not rs:
                    return d
                kind, r = rs[0]
                if kind == 'int':
                    return take(d[r], rs[1:])
                return [take(d[k], rs[1:]) for k in r]
            full = rng + [('slice', range(n)) for n in shp[len(rng):]]
            new_shape = [len(r) for kind, r in full if kind == 'slice']
            return Mat(take(data, full), new_shape)
        for i in idx:
            k = _const_int(i)
            if k is None:
                return alg.opaque('getitem', (argkey(m),) + tuple(argkey(x) for x in idx))
            ks.append(k)
        if len(ks) > len(shp):
            self.diag('shape', node, 'too many indices (%d) for an array of rank %d' % (len(ks), len(shp)))
            return self.unknown('too many indices', node)
        for ax, k in enumerate(ks):
            if not (-shp[ax] <= k < shp[ax]):
                self.diag('shape', node, 'index %d out of bounds for axis %d of size %d' % (k, ax, shp[ax]))
                return self.unknown('index out of bounds', node)
            cur = cur[k]
        rest = shp[len(ks):]
        if rest:
            return Mat(cur, rest)
        return cur

    def _slice_ranges(self, m, idx, node):
        """[('int', k) | ('slice', range)] per indexed axis for constant indices / slices, else None"""
        out = []
        if len(idx) > len(m.shape):
            return None
        for ax, i in enumerate(idx):
            n = m.shape[ax]
            if isinstance(i, SliceV):
                vals = []
                for x in (i.lo, i.hi, i.step):
                    if x is None or isinstance(x, NoneV):
                        vals.append(None)
                    else:
                        k = _const_int(x)
                        if k is None:
                            return None
                        vals.append(k)
                out.append(('slice', range(*slice(*vals).indices(n))))
            else:
                k = _const_int(i)
                if k is None or not (-n <= k < n):
                    return None
                out.append(('int', k % n))
        return out

    def mat_store(self, m, idx, v, node):
        idx = idx if isinstance(idx, list) else [idx]
        if input_typed(m) and isinstance(v, (Rat, Mat)) and not integer_closed(v):
            INPLACE_EVENTS.append((self._stack[-1] if self._stack else None, node, 'store', m, v))
            if len(INPLACE_EVENTS) > 5000:
                del INPLACE_EVENTS[:2500]
        if any(isinstance(i, SliceV) for i in idx):
            rng = self._slice_ranges(m, idx, node)
            if rng is None:
                self.diag('unknown', node, 'array store with a non-constant slice')
                return
            full = rng + [('slice', range(n)) for n in list(m.shape)[len(rng):]]
            tshape = [len(r) for kind, r in full if kind == 'slice']
            if isinstance(v, Mat):
                if list(v.shape) != tshape:
                    self.diag('shape', node, 'a value of shape %s is stored into a block of shape %s' % (tuple(v.shape), tuple(tshape)))
                    return

            def put(d, rs, src):
                kind, r = rs[0]
                if kind == 'int':
                    if len(rs) == 1:
                        d[r] = src
                    else:
                        put(d[r], rs[1:], src)
                    return
                for n_, k in enumerate(r):
                    part = src[n_] if isinstance(src, list) else src
                    if len(rs) == 1:
                        d[k] = part
                    else:
                        put(d[k], rs[1:], part)
            put(m.data, full, v.data if isinstance(v, Mat) else v)
            return
        ks = [_const_int(i) for i in idx]
        if any(k is None for k in ks):
            self.diag('unknown', node, 'array store with a non-constant index')
            return
        if len(ks) != len(m.shape):
            self.diag('unknown', node, 'partial-index array store')
            return
        if isinstance(v, Mat):
            size = 1
            for s in v.shape:
                size *= s
            self.diag('shape-store', node, 'a value of shape %s is stored into the scalar cell %s[%s]' % (
                v.shape, stmt_text(node.value) if hasattr(node, 'value') else '?', ', '.join(str(k) for k in ks)))
            if size == 1:
                x = v.data
                while isinstance(x, list):
                    x = x[0]
                v = x
            else:
                v = self.unknown('array stored in scalar cell', node)
        cur = m.data
        for ax, k in enumerate(ks[:-1]):
            if not (-m.shape[ax] <= k < m.shape[ax]):
                self.diag('shape', node, 'store index out of bounds')
                return
            cur = cur[k]
        if not (-m.shape[-1] <= ks[-1] < m.shape[-1]):
            self.diag('shape', node, 'store index out of bounds')
            return
        cur[ks[-1]] = v

    def mat_transpose(self, m, node):
        if len(m.shape) == 2:
            r, c = m.shape
            return Mat([[m.data[i][j] for i in range(r)] for j in range(c)], (c, r))
        if len(m.shape) == 1:
            return m
        return self.unknown('transpose of rank %d' % len(m.shape), node)

    def matmul(self, a, b, node):
        if not (isinstance(a, Mat) and isinstance(b, Mat)):
            return alg.opaque('matmul', (argkey(a), argkey(b)))
        A, B = a, b
        if len(A.shape) == 2 and len(B.shape) == 2:
            if A.shape[1] != B.shape[0]:
                self.diag('shape', node, 'matmul of shapes %s and %s' % (A.shape, B.shape))
                return self.unknown('matmul shape', node)
            n, k, mm = A.shape[0], A.shape[1], B.shape[1]
            return Mat([[self._dot([A.data[i][t] for t in range(k)], [B.data[t][j] for t in range(k)], node) for j in range(mm)] for i in range(n)], (n, mm))
        if len(A.shape) == 2 and len(B.shape) == 1:
            if A.shape[1] != B.shape[0]:
                self.diag('shape', node, 'matmul of shapes %s and %s' % (A.shape, B.shape))
                return self.unknown('matmul shape', node)
            return Mat([self._dot(A.data[i], B.data, node) for i in range(A.shape[0])], (A.shape[0],))
        if len(A.shape) == 1 and len(B.shape) == 2:
            if A.shape[0] != B.shape[0]:
                self.diag('shape', node, 'matmul of shapes %s and %s' % (A.shape, B.shape))
                return self.unknown('matmul shape', node)
            return Mat([self._dot(A.data, [B.data[t][j] for t in range(B.shape[0])], node) for j in range(B.shape[1])], (B.shape[1],))
        if len(A.shape) == 1 and len(B.shape) == 1 and A.shape == B.shape:
            return self._dot(A.data, B.data, node)
        return self.unknown('matmul ranks', node)

    def _dot(self, xs, ys, node):
        s = C(0)
        for x, y in zip(xs, ys):
            s = self.binop(ast.Add(), s, self.binop(ast.Mult(), x, y, node), node)
        return s

    def mat_binop(self, op, a, b, node):
        if isinstance(op, ast.MatMult):
            return self.matmul(a, b, node)
        if isinstance(a, Mat) and isinstance(b, Mat):
            if a.shape == b.shape:
                return Mat(_mat_zip(a.data, b.data, lambda x, y: self.binop(op, x, y, node)), a.shape)
            # numpy broadcasting of two 2-d arrays: an axis of length 1 is stretched - (3, 1) with (1, 3) gives (3, 3), silently
            if len(a.shape) == 2 and len(b.shape) == 2 and all(x == y or x == 1 or y == 1 for x, y in zip(a.shape, b.shape)):
                n_, m_ = max(a.shape[0], b.shape[0]), max(a.shape[1], b.shape[1])
                if n_ * m_ <= 144:
                    def at(mt, i, j):
                        return mt.data[i if mt.shape[0] > 1 else 0][j if mt.shape[1] > 1 else 0]
                    return Mat([[self.binop(op, at(a, i, j), at(b, i, j), node) for j in range(m_)] for i in range(n_)], (n_, m_))
            # broadcasting of (n,1) with (n,) etc. is not modelled
            self.diag('shape', node, 'elementwise operation on shapes %s and %s' % (a.shape, b.shape))
            return self.unknown('broadcast', node)
        if isinstance(a, Mat) and isinstance(b, Rat):
            return Mat(_mat_map(a.data, lambda x: self.binop(op, x, b, node)), a.shape)
        if isinstance(b, Mat) and isinstance(a, Rat):
            return Mat(_mat_map(b.data, lambda x: self.binop(op, a, x, node)), b.shape)
        return self.unknown('array operation', node)


class FileV(Val):
    """an open binary file: only the cursor is modelled; read(n) yields an opaque bytes atom keyed by (offset, n)"""

    def __init__(self, name, cursor=None):
        self.name = name
        self.cursor = cursor if cursor is not None else C(0)
        self.reads = []      # (offset Rat, size Rat)


class Unbound(Val):
    def __init__(self, name):
        self.name = name


class BoundMethod(Val):
    def __init__(self, obj, method):
        self.obj = obj
        self.method = method


class BoundExt(Val):
    def __init__(self, obj, attr):
        self.obj = obj
        self.attr = attr


class SliceV(Val):
    def __init__(self, lo, hi, step):
        self.lo, self.hi, self.step = lo, hi, step

    def __repr__(self):
        f = lambda x: '' if x is None else (alg.fmt(x) if isinstance(x, Rat) else repr(x))
        return 'slice(%s:%s:%s)' % (f(self.lo), f(self.hi), f(self.step))


class DateV(Val):
    def __init__(self, y, m, d):
        self.y, self.m, self.d = y, m, d

    def ordinal(self):
        import datetime
        return datetime.date(self.y, self.m, self.d).toordinal()


class _ModuleScope(object):
    def __init__(self, module):
        self.module = module
        self.key = module.relpath + '::<module>'
        self.qualname = '<module>'
        self.nested = {}


COND_NAMES = {'lt', 'le', 'gt', 'ge', 'eq', 'ne', 'and', 'or', 'not', 'in', 'notin', 'truthy', 'isinstance'}

TRUNC_EVENTS = []    # (function, call node, exact value, double value, constants in scope): int() of an expression that truncates differently in double arithmetic
def _dec_object_is_its_degrees(v):
    if isinstance(v, Obj) and v.cls is not None and v.cls.name == 'DECAngle' and not v.origin and isinstance(v.fields.get('dec_angle'), (Rat, CallV)):
        return v.fields['dec_angle']
    return v


DIV_EVENTS = []      # (function, node, denominator form, branch conditions) of every true division by a non-constant met by any evaluator
INPLACE_EVENTS = []  # (function, statement, kind, array, value): in-place updates of arrays whose dtype follows the caller's numbers


def integer_closed(v):
    """v stays an integer whenever the caller's numbers are integers: a polynomial with integer coefficients in plain symbols"""
    if isinstance(v, Mat):
        ok = [True]

        def look(x):
            if not integer_closed(x):
                ok[0] = False
            return x
        _mat_map(v.data, look)
        return ok[0]
    if not isinstance(v, Rat):
        return False
    if not v.den.is_const() or v.num.has_exp():
        return False
    dc = v.den.const_value()
    for mono, c in v.num.t.items():
        q = c / dc
        if not q.is_real() or q.re.denominator != 1:
            return False
        for aid, e in mono[0]:
            if alg.TABLE.atoms[aid].kind != 'sym' or e < 0:
                return False
    return True


def input_typed(m):
    """a Mat whose dtype is decided by the caller's values: every element integer-closed, at least one of them not a constant"""
    if isinstance(m, Mat) and m.origin == 'like-input':
        # numpy.zeros_like(<the caller's array>): the element type is the caller's
        return True
    if not isinstance(m, Mat) or m.origin != 'literal' or not integer_closed(m):
        return False
    some = [False]

    def look(x):
        if isinstance(x, Rat) and not x.is_const():
            some[0] = True
        return x
    _mat_map(m.data, look)
    return some[0]


MATH_CALLS = []     # (function, name, call node, argument form, result form) of sqrt / acos / asin calls met by any evaluator

def _return_arity(f):
    """n when every `return` of the function is a tuple display of n elements, else None"""
    ns = set()
    for r in ast.walk(f.node):
        if isinstance(r, ast.Return):
            if isinstance(r.value, ast.Tuple) and not any(isinstance(e, ast.Starred) for e in r.value.elts):
                ns.add(len(r.value.elts))
            else:
                return None
    return ns.pop() if len(ns) == 1 else None


def _callv_items(v):
    return [CallV(alg.opaque('item', (v.rat, C(i))), v.name) for i in range(v.arity)]


def _fold1(x, f, name):
    """a rounding function of one argument: folded exactly on a rational constant, an opaque generator otherwise"""
    fr = x.as_fraction() if isinstance(x, Rat) else None
    if fr is not None:
        return C(f(fr))
    return alg.opaque(name, (x,))


MATH1 = {
    'sin': alg.sin, 'cos': alg.cos, 'tan': alg.tan, 'sinh': alg.sinh, 'cosh': alg.cosh, 'tanh': alg.tanh,
    'atan': alg.atan, 'arctan': alg.atan, 'asin': alg.asin, 'arcsin': alg.asin, 'acos': alg.acos, 'arccos': alg.acos,
    'sqrt': alg.sqrt, 'log': alg.log, 'exp': alg.exp, 'radians': alg.radians, 'deg2rad': alg.radians,
    'degrees': alg.degrees, 'rad2deg': alg.degrees, 'atanh': alg.atanh, 'arctanh': alg.atanh, 'asinh': alg.asinh,
    'arcsinh': alg.asinh, 'fabs': alg.fabs, 'abs': alg.fabs, 'absolute': alg.fabs,
    'floor': lambda x: _fold1(x, lambda f_: Fraction(f_.numerator // f_.denominator), 'floor'),
    'ceil': lambda x: _fold1(x, lambda f_: Fraction(-((-f_.numerator) // f_.denominator)), 'ceil'),
    'trunc': lambda x: _fold1(x, lambda f_: Fraction(int(f_)), 'int'),
}


# Rounding sites confirmed by reading today's tree: function -> the digits it rounds to ('any': the digits are the caller's argument).
# A rounding here with at least the smallest listed digits is part of the documented behaviour (the property rules judge the digits);
# a rounding anywhere else, or a coarser one, is modelled as the function rnd(x, d).
CONFIRMED_ROUNDINGS = {
    'DECAngle.__round__': 'any', 'HPAngle.__round__': 'any', 'GONAngle.__round__': 'any', 'DMSAngle.__round__': 'any', 'DDMAngle.__round__': 'any',
    'CoordCart.__round__': 'any', 'CoordGeo.__round__': 'any', 'CoordTM.__round__': 'any',
    'dec2hp': 'any',                                # round(second, places) == 60: the carry test, places is 9 / 8 by magnitude
    'Transformation.__add__': (8,), 'iers2trans': (8,),
    'geo2grid': (4, 4, 8), 'grid2geo': (11, 11, 8),
    'vincdir': (11, 11, 9), 'vincinv': (3, 9, 9),
    'SubGrid.ntv2_bilinear': (6,), 'SubGrid.ntv2_bicubic': (6,), 'read_ntv2_file': (3, 6),
    'precise_inst_ht': (5, 5),
    'transform_mga94_to_mga2020': (4,), 'transform_mga2020_to_mga94': (4,),
}
ROUNDING_MODEL = {'on': True}


def _single_atom(r):
    if not isinstance(r, Rat):
        return None
    if not r.den.is_const() or len(r.num.t) != 1:
        return None
    (m, c), = r.num.t.items()
    a, e = m
    if e or len(a) != 1 or a[0][1] != 1 or c != r.den.const_value():
        return None
    return alg.TABLE.atoms[a[0][0]]


def _const_int(v):
    if isinstance(v, Rat):
        f = v.as_fraction()
        if f is not None and f.denominator == 1:
            return int(f)
    if isinstance(v, Bool):
        return int(v.b)
    return None


def _const_key(v):
    if isinstance(v, Str):
        return v.s
    k = _const_int(v)
    if k is not None:
        return k
    if isinstance(v, Rat):
        f = v.as_fraction()
        if f is not None:
            return f
    return None


def _copy_env(env):
    out = {}
    memo = {}       # two names that denote ONE array keep denoting one array in the copy
    for k, v in env.items():
        if isinstance(v, Mat):
            if id(v) not in memo:
                memo[id(v)] = Mat(_mat_map(v.data, lambda x: x), v.shape, v.origin)
            out[k] = memo[id(v)]
        elif isinstance(v, Tup) and v.is_list:
            out[k] = Tup(list(v.items), True)
        elif isinstance(v, DictV):
            out[k] = DictV(dict(v.d))
        elif isinstance(v, list):
            out[k] = list(v)
        else:
            out[k] = v
    return out


def _mat_zip(a, b, f):
    if isinstance(a, list):
        return [_mat_zip(x, y, f) for x, y in zip(a, b)]
    return f(a, b)


def _as_load(t):
    import copy
    t2 = copy.deepcopy(t)
    for n in ast.walk(t2):
        if hasattr(n, 'ctx'):
            n.ctx = ast.Load()
    return t2


def _has_break(loop):
    for st in loop.body:
        for n in ast.walk(st):
            if isinstance(n, (ast.Break, ast.Continue)):
                return True
    return False


def _assigned_names(loop):
    names = set()
    for part in (loop.body, loop.orelse):
        for st in part:
            for n in ast.walk(st):
                if isinstance(n, ast.Name) and isinstance(n.ctx, ast.Store):
                    names.add(n.id)
    return names


# ------------------------------------------------------------------------------------------------ summaries
def _sum_identity(argname):
    def f(ev, func, args, node):
        v = args.get(argname)
        if isinstance(v, Obj):
            # an angle object: .dec() of it
            return alg.opaque('dec', (argkey(v),))
        return v
    return f


def _sum_hp2dec(ev, func, args, node):
    """hp2dec(q): for |q| < 0.0060 (i.e. an arc-second quantity / 10000 below one minute) the HP value
    0.00SSsss denotes q*10000 seconds = q*10000/3600 degrees"""
    v = args.get('hp')
    if isinstance(v, Rat):
        ev.assumed.append('hp2dec(x) == x*10000/3600 (argument below one arc-minute in HP notation)')
        return v * C(10000) / C(3600)
    return NotImplemented


DEFAULT_SUMMARIES = {
    'angular_typecheck': _sum_identity('angle'),
    'hp2dec': _sum_hp2dec,
}
