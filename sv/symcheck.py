"""Glue between the symbolic evaluator and the rules: oracle evaluation, comparison with the definiteness policy."""
import ast
from fractions import Fraction as F
from fractions import Fraction
from . import alg
from .alg import Rat, C
from .model import Repo, AnalysisError
from .symval import Evaluator, Obj, Tup, Str, Bool, NoneV, Mat, CallV, IteV, valkey, _single_atom
from .report import HOLDS, VIOLATED, UNDECIDED


def fresh_table():
    alg.reset()


def evaluator(repo, **kw):
    return Evaluator(repo, **kw)


def sym_object(ev, repo, modname, clsname, name, origin=None):
    return ev.symbolic_object(repo.cls(modname, clsname), name, origin)


def sym_ellipsoid(ev, repo, name='ellipsoid'):
    return sym_object(ev, repo, 'geodepy.constants', 'Ellipsoid', name)


def sym_projection(ev, repo, name='prj'):
    return sym_object(ev, repo, 'geodepy.constants', 'Projection', name)


def n_ellipsoid(ev, repo, a='a', n='n', origin='param:ellipsoid'):
    """an Ellipsoid whose inverse flattening is expressed through the third flattening n: 1/f = (1+n)/(2n)"""
    cls = repo.cls('geodepy.constants', 'Ellipsoid')
    nn = Rat.sym(n)
    E = Obj(cls, {}, origin=origin)
    ev._run_init(cls, E, {'semimaj': Rat.sym(a), 'inversef': (C(1) + nn) / (C(2) * nn)})
    return E


_ORACLE_REPOS = {}


def _digest(repo):
    if repo is None:
        return None
    d = getattr(repo, '_digest', None)
    if d is None:
        import hashlib
        h = hashlib.sha1()
        for k in sorted(repo.sources):
            h.update(k.encode())
            h.update(repo.sources[k].encode())
        d = h.hexdigest()
        repo._digest = d
    return d


class Oracle(object):
    """oracle formulas written as python source, evaluated by the same abstract evaluator"""

    def __init__(self, src, name='oracle', base=None, opaque=(), summaries=None):
        ck = (name, src, _digest(base))
        if ck in _ORACLE_REPOS:
            self.repo = _ORACLE_REPOS[ck]
        else:
            sources = {name + '.py': src}
            if base is not None:
                # the reference may call functions of the analysed repository (kept opaque or inlined like in the code)
                sources.update(base.sources)
            self.repo = Repo(sources, '<oracle>')
            if len(_ORACLE_REPOS) > 8:
                _ORACLE_REPOS.clear()
            _ORACLE_REPOS[ck] = self.repo
        self.mod = self.repo.module(name)
        self.ev = Evaluator(self.repo, inline_depth=12, opaque=opaque, summaries=summaries)

    def call(self, fname, **args):
        f = self.mod.functions.get(fname)
        if f is None:
            raise AnalysisError('oracle function %s missing' % fname)
        return self.ev.call_function(f, args)


def has_unknown(r):
    if not isinstance(r, Rat):
        return False
    for k in r.atoms(deep=True):
        if alg.TABLE.atoms[k].kind == 'unk':
            return True
    return False


def unknown_reasons(r):
    out = []
    for k in sorted(r.atoms(deep=True)):
        a = alg.TABLE.atoms[k]
        if a.kind == 'unk':
            out.append(a.name)
    return out


def show(v, depth=3, width=700):
    if isinstance(v, Rat):
        s = alg.describe(v, depth)
        lines = [(l if len(l) <= width else l[:width] + ' ...<%d chars>' % len(l)) for l in s.split('\n')[:8]]
        return '\n'.join(lines)
    if isinstance(v, Tup):
        return '(' + ', '.join(show(x, depth, width // 2) for x in v.items) + ')'
    if isinstance(v, Str):
        return repr(v.s)
    if isinstance(v, Bool):
        return str(v.b)
    if isinstance(v, NoneV):
        return 'None'
    if isinstance(v, CallV):
        return show(v.rat, depth, width)
    if isinstance(v, IteV):
        return 'ite(%s, %s, %s)' % (show(v.cond, depth, width // 3), show(v.a, depth, width // 3), show(v.b, depth, width // 3))
    if isinstance(v, Obj):
        return 'obj<%s>' % (v.origin or (v.cls.name if v.cls else '?'))
    if isinstance(v, Mat):
        return 'array%s' % (v.shape,)
    return repr(v)[:width]


def compare_values(a, b):
    """'equal' | 'different' | 'unknown' for arbitrary evaluator values"""
    if isinstance(a, CallV):
        a = a.rat
    if isinstance(b, CallV):
        b = b.rat
    if isinstance(a, Rat) and isinstance(b, Rat):
        if has_unknown(a) or has_unknown(b):
            r = alg.decide_equal(a, b)
            return 'equal' if r == 'equal' else 'unknown'
        return alg.decide_equal(a, b)
    if isinstance(a, Tup) and isinstance(b, Tup):
        if len(a.items) != len(b.items):
            return 'different'
        res = 'equal'
        for x, y in zip(a.items, b.items):
            r = compare_values(x, y)
            if r == 'different':
                return 'different'
            if r == 'unknown':
                res = 'unknown'
        return res
    if isinstance(a, Mat) and isinstance(b, Mat):
        if a.shape != b.shape:
            return 'different'
        fa, fb = flatten(a.data), flatten(b.data)
        res = 'equal'
        for x, y in zip(fa, fb):
            r = compare_values(x, y)
            if r == 'different':
                return 'different'
            if r == 'unknown':
                res = 'unknown'
        return res
    if isinstance(a, IteV) and isinstance(b, IteV):
        rs = [compare_values(a.cond, b.cond), compare_values(a.a, b.a), compare_values(a.b, b.b)]
        if all(r == 'equal' for r in rs):
            return 'equal'
        if rs[0] == 'equal' and 'different' in rs[1:]:
            return 'different'
        return 'unknown'
    if type(a) is not type(b):
        if isinstance(a, (Rat, IteV)) or isinstance(b, (Rat, IteV)):
            return 'unknown'
        return 'different'
    if isinstance(a, (Str, Bool, NoneV)):
        return 'equal' if valkey(a) == valkey(b) else 'different'
    if isinstance(a, Obj):
        if a.origin and b.origin:
            return 'equal' if a.origin == b.origin else 'different'
        if (a.cls.key if a.cls else None) != (b.cls.key if b.cls else None):
            return 'different'
        res = 'equal'
        for k in set(a.fields) | set(b.fields):
            if k not in a.fields or k not in b.fields:
                return 'different'
            r = compare_values(a.fields[k], b.fields[k])
            if r == 'different':
                return 'different'
            if r == 'unknown':
                res = 'unknown'
        return res
    return 'equal' if valkey(a) == valkey(b) else 'unknown'


def flatten(d):
    if isinstance(d, list):
        out = []
        for x in d:
            out.extend(flatten(x))
        return out
    return [d]


CROSSCHECK = {'on': False, 'done': 0, 'skipped': 0}


def check_equal(rep, rule, key, where, actual, expected, what, undecided_note=''):
    r = compare_values(actual, expected)
    if r == 'equal':
        if CROSSCHECK['on']:
            # thorough tier: an independent look at the symbolic verdict - both forms evaluated numerically at in-domain points
            a_ = actual.rat if isinstance(actual, CallV) else actual
            e_ = expected.rat if isinstance(expected, CallV) else expected
            if isinstance(a_, Rat) and isinstance(e_, Rat):
                try:
                    agree = alg.numeric_agree(a_, e_, _DefaultRanges(), trials=6, rel=1e-6)
                    wit = None if agree else alg.numeric_witness(a_, e_, _DefaultRanges(), trials=6, rel=1e-6)
                except RecursionError:
                    agree, wit = True, None
                if wit is not None:
                    raise AnalysisError('symbolic equality of %s is contradicted numerically at %s: %r vs %r' % (key, wit[0], wit[1], wit[2]))
                CROSSCHECK['done' if agree else 'skipped'] += 1
        rep.holds(rule, key, where, what + ': normal forms identical')
    elif r == 'different':
        rep.violated(rule, key, where, what + ': the code computes a different function than the reference formula',
                     expected=show(expected), actual=show(actual))
    else:
        a_, e_ = (actual.rat if isinstance(actual, CallV) else actual), (expected.rat if isinstance(expected, CallV) else expected)
        r2, note = case_split(a_, e_)
        if r2 == 'equal':
            rep.holds(rule, key, where, what + ': ' + note)
            return 'equal'
        if r2 == 'different':
            rep.violated(rule, key, where, what + ': a special-case branch of the code departs from the reference formula: ' + note,
                         expected=show(expected), actual=show(actual))
            return 'different'
        if r2 == 'unknown' and isinstance(a_, Rat) and isinstance(e_, Rat) and not has_unknown(a_) and not has_unknown(e_):
            # structurally not recognised equal; exhibit in-domain points where the two forms take macroscopically different values
            try:
                wit = alg.numeric_witness(a_, e_, _DefaultRanges())
            except RecursionError:
                wit = None
            if wit is not None:
                pt, va, vb = wit
                rep.violated(rule, key, where, what + ': the code and the reference formula take different values, e.g. at %s: %.12g instead of %.12g' % (
                    ', '.join('%s=%.5g' % kv for kv in sorted(pt.items())[:8]), va.real, vb.real), expected=show(expected), actual=show(actual))
                return 'different'
        why = ''
        if isinstance(actual, Rat) and has_unknown(actual):
            why = ' (code form contains constructs outside the subset: %s)' % '; '.join(unknown_reasons(actual)[:3])
        rep.undecided(rule, key, where, what + ': forms differ but not definitely' + why + undecided_note,
                      expected=show(expected, 2, 300), actual=show(actual, 2, 300))
    return r


def leaves(v):
    """free symbol names occurring (deep) in a value"""
    out = set()

    def rec(x):
        if isinstance(x, CallV):
            x = x.rat
        if isinstance(x, Rat):
            for k in x.atoms(deep=True):
                a = alg.TABLE.atoms[k]
                if a.kind == 'sym':
                    out.add(a.name)
                elif a.kind == 'fn':
                    for s in a.args:
                        if isinstance(s, str):
                            out.add('arg:' + s)
        elif isinstance(x, Tup):
            for y in x.items:
                rec(y)
        elif isinstance(x, Mat):
            for y in flatten(x.data):
                rec(y)
        elif isinstance(x, IteV):
            rec(x.cond)
            rec(x.a)
            rec(x.b)
        elif isinstance(x, Obj):
            for y in x.fields.values():
                rec(y)
    rec(v)
    return out


def poly_in(r, symname):
    """coefficients {power: Fraction} of r as a polynomial in the symbol; r is unfolded first. None if not such"""
    r2 = alg.unfold_all(r)
    if r2 is None:
        return None
    a = alg.TABLE.syms.get(symname)
    if a is None:
        f = r2.as_fraction()
        return {0: f} if f is not None else None
    return alg.real_poly_in(r2, a.id)


def to_rat(x):
    if isinstance(x, Rat):
        return x
    return C(Fraction(x))


# ------------------------------------------------------------------------------------------------ special-case branches
def _cond_atoms(r, out, seen):
    """equality tests (eq / ne atoms against a constant) occurring at any depth"""
    if not isinstance(r, Rat):
        return
    for k in r.atoms(deep=False):
        if k in seen:
            continue
        seen.add(k)
        a = alg.TABLE.atoms[k]
        if a.kind != 'fn':
            continue
        if a.name in ('eq', 'ne') and len(a.args) == 2 and all(isinstance(x, Rat) for x in a.args):
            if a.args[0].as_fraction() is not None or a.args[1].as_fraction() is not None:
                out.append(a)
        for x in a.args:
            _cond_atoms(x, out, seen)


def fold_conditions(r):
    """evaluate comparison atoms whose arguments became constants, then the and/or/not/ite atoms that depend on them"""
    def f(a):
        if a.kind != 'fn':
            return None
        args = a.args
        if a.name in ('lt', 'le', 'eq', 'ne', 'gt', 'ge') and len(args) == 2 and all(isinstance(x, Rat) for x in args):
            d = (args[0] - args[1]).as_fraction()
            if d is not None:
                return C(1 if {'lt': d < 0, 'le': d <= 0, 'eq': d == 0, 'ne': d != 0, 'gt': d > 0, 'ge': d >= 0}[a.name] else 0)
            return None
        if a.name in ('and', 'or') and all(isinstance(x, Rat) for x in args):
            vals = [x.as_fraction() for x in args]
            if a.name == 'or' and any(v is not None and v != 0 for v in vals):
                return C(1)
            if a.name == 'and' and any(v is not None and v == 0 for v in vals):
                return C(0)
            rest = [x for x, v in zip(args, vals) if v is None]
            if not rest:
                return C(1 if a.name == 'and' else 0)
            if len(rest) == 1:
                return rest[0]
            return None
        if a.name == 'not' and isinstance(args[0], Rat):
            v = args[0].as_fraction()
            if v is not None:
                return C(0 if v else 1)
        if a.name == 'truthy' and isinstance(args[0], Rat):
            v = args[0].as_fraction()
            if v is not None:
                return C(1 if v else 0)
        if a.name == 'ite' and isinstance(args[0], Rat):
            v = args[0].as_fraction()
            if v is not None:
                return args[1] if v else args[2]
        return None
    prev = None
    cur = r
    for _ in range(8):
        cur = alg.map_atoms(cur, f)
        if prev is not None and cur.equals(prev):
            break
        prev = cur
    return cur


def solve_special(atom):
    """for eq/ne(E, c): an input symbol s and value v with E[s := v] == c; None when no single-symbol substitution does it"""
    E, c = atom.args
    if E.as_fraction() is not None:
        E, c = c, E
    cf = c.as_fraction()
    if cf is None:
        return None
    for k in sorted(E.atoms(deep=True)):
        a = alg.TABLE.atoms[k]
        if a.kind != 'sym' or '@' in a.name:
            continue
        for v in (cf, F(0)):
            try:
                val = fold_conditions(alg.subst(E, {k: C(v)}))
                full = alg.unfold_all(val) if alg.def_atoms(val) else val
            except ZeroDivisionError:
                continue
            if full is not None and full.as_fraction() == cf:
                return a, v
    return None


def case_split(actual, expected):
    """decide actual == expected when the code (not the reference) branches on equality tests of its inputs:
    generic case (all such tests false) must agree, and each special input must agree as well.
    -> ('equal' | 'different' | 'unknown', explanation)"""
    if not (isinstance(actual, Rat) and isinstance(expected, Rat)):
        return 'unknown', ''
    ca, cb = [], []
    _cond_atoms(actual, ca, set())
    _cond_atoms(expected, cb, set())
    idb = set(a.id for a in cb)
    special = [a for a in ca if a.id not in idb]
    if not special or len(special) > 4:
        return 'unknown', ''
    # generic case
    gen = alg.subst(actual, dict((a.id, C(0 if a.name == 'eq' else 1)) for a in special))
    gen = fold_conditions(gen)
    r = alg.decide_equal(gen, expected)
    if r != 'equal':
        return 'unknown', ''
    notes = []
    for a in special:
        sol = solve_special(a)
        if sol is None:
            return 'unknown', 'special case %s not solvable for one input' % alg.fmt(Rat.atom(a), 3)
        s, v = sol
        try:
            la = fold_conditions(alg.subst(actual, {s.id: C(v)}))
            lb = fold_conditions(alg.subst(expected, {s.id: C(v)}))
        except ZeroDivisionError:
            return 'unknown', 'reference not defined at %s = %s' % (s.name, v)
        r2 = alg.decide_equal(la, lb)
        if r2 == 'different':
            return 'different', 'for %s = %s (the code tests %s) the code returns %s where the formula gives %s' % (
                s.name, v, alg.fmt(Rat.atom(a), 3), alg.fmt(la, 3)[:160], alg.fmt(lb, 3)[:160])
        if r2 != 'equal':
            wit = alg.numeric_witness(la, lb, _DefaultRanges())
            if wit is not None:
                pt, va, vb = wit
                return 'different', 'for %s = %s (the code tests %s) the code and the formula differ, e.g. at %s: %.9g instead of %.9g' % (
                    s.name, v, alg.fmt(Rat.atom(a), 2)[:80], ', '.join('%s=%.4g' % kv for kv in sorted(pt.items())[:6]), va.real, vb.real)
            return 'unknown', 'special case %s = %s not decided' % (s.name, v)
        notes.append('%s = %s' % (s.name, v))
    return 'equal', 'generic case and special inputs %s agree' % ', '.join(notes)


class _DefaultRanges(dict):
    """plausible in-domain ranges by symbol name (witness points only; equality is never concluded from them)"""

    def __contains__(self, k):
        return True

    def __getitem__(self, k):
        n = k.lower()
        if 'inversef' in n:
            return (150.0, 400.0)
        if 'semimaj' in n or 'semimin' in n:
            return (6.3e6, 6.4e6)
        if n.startswith('lat') or '.lat' in n:
            return (-70.0, 70.0)
        if n.startswith('lon') or '.lon' in n:
            return (-170.0, 170.0)
        if 'east' in n:
            return (2.0e5, 8.0e5)
        if 'north' in n:
            return (1.0e6, 9.0e6)
        return (0.3, 0.9)
