"""Glue between the symbolic evaluator and the rules: oracle evaluation, comparison with the definiteness policy."""
import ast
from fractions import Fraction as F
from fractions import Fraction
from . import alg
from .alg import Rat, C
from .model import Repo, AnalysisError
from .symval import Evaluator, Obj, Tup, Str, Bool, NoneV, Mat, CallV, IteV, valkey, _single_atom
from .report import HOLDS, VIOLATED, UNDECIDED


def fresh_table():
    alg.reset()


def evaluator(repo, **kw):
    return Evaluator(repo, **kw)


def sym_object(ev, repo, modname, clsname, name, origin=None):
    return ev.symbolic_object(repo.cls(modname, clsname), name, origin)


def sym_ellipsoid(ev, repo, name='ellipsoid'):
    return sym_object(ev, repo, 'geodepy.constants', 'Ellipsoid', name)


def sym_projection(ev, repo, name='prj'):
    return sym_object(ev, repo, 'geodepy.constants', 'Projection', name)


def n_ellipsoid(ev, repo, a='a', n='n', origin='param:ellipsoid'):
    """an Ellipsoid whose inverse flattening is expressed through the third flattening n: 1/f = (1+n)/(2n)"""
    cls = repo.cls('geodepy.constants', 'Ellipsoid')
    nn = Rat.sym(n)
    E = Obj(cls, {}, origin=origin)
    ev._run_init(cls, E, {'semimaj': Rat.sym(a), 'inversef': (C(1) + nn) / (C(2) * nn)})
    return E


_ORACLE_REPOS = {}


def _digest(repo):
    if repo is None:
        return None
    d = getattr(repo, '_digest', None)
    if d is None:
        import hashlib
        h = hashlib.sha1()
        for k in sorted(repo.sources):
            h.update(k.encode())
            h.update(repo.sources[k].encode())
        d = h.hexdigest()
        repo._digest = d
    return d


class Oracle(object):
    """oracle formulas written as python source, evaluated by the same abstract evaluator"""

    def __init__(self, src, name='oracle', base=None, opaque=(), summaries=None):
        ck = (name, src, _digest(base))
        if ck in _ORACLE_REPOS:
            self.repo = _ORACLE_REPOS[ck]
        else:
            sources = {name + '.py': src}
            if base is not None:
                # the reference may call functions of the analysed repository (kept opaque or inlined like in the code)
                sources.update(base.sources)
            self.repo = Repo(sources, '<oracle>')
            if len(_ORACLE_REPOS) > 8:
                _ORACLE_REPOS.clear()
            _ORACLE_REPOS[ck] = self.repo
        self.mod = self.repo.module(name)
        self.ev = Evaluator(self.repo, inline_depth=12, opaque=opaque, summaries=summaries)

    def call(self, fname, **args):
        f = self.mod.functions.get(fname)
        if f is None:
            raise AnalysisError('oracle function %s missing' % fname)
        return self.ev.call_function(f, args)


def has_unknown(r):
    if not isinstance(r, Rat):
        return False
    for k in r.atoms(deep=True):
        if alg.TABLE.atoms[k].kind == 'unk':
            return True
    return False


def unknown_reasons(r):
    out = []
    for k in sorted(r.atoms(deep=True)):
        a = alg.TABLE.atoms[k]
        if a.kind == 'unk':
            out.append(a.name)
    return out


def show(v, depth=3, width=700):
    if isinstance(v, Rat):
        s = alg.describe(v, depth)
        lines = [(l if len(l) <= width else l[:width] + ' ...<%d chars>' % len(l)) for l in s.split('\n')[:8]]
        return '\n'.join(lines)
    if isinstance(v, Tup):
        return '(' + ', '.join(show(x, depth, width // 2) for x in v.items) + ')'
    if isinstance(v, Str):
        return repr(v.s)
    if isinstance(v, Bool):
        return str(v.b)
    if isinstance(v, NoneV):
        return 'None'
    if isinstance(v, CallV):
        return show(v.rat, depth, width)
    if isinstance(v, IteV):
        return 'ite(%s, %s, %s)' % (show(v.cond, depth, width // 3), show(v.a, depth, width // 3), show(v.b, depth, width // 3))
    if isinstance(v, Obj):
        return 'obj<%s>' % (v.origin or (v.cls.name if v.cls else '?'))
    if isinstance(v, Mat):
        return 'array%s' % (v.shape,)
    return repr(v)[:width]


def _has_abs(r):
    try:
        return any(alg.TABLE.atoms[k].kind == 'fn' and alg.TABLE.atoms[k].name == 'abs' for k in r.atoms(deep=True))
    except RecursionError:
        return False


def _lift_single_ite(r):
    """r with its ONE top-level conditional atom pulled outside: f(ite(c, A, B)) -> ite(c, f(A), f(B)); r itself when there is none or several"""
    if not isinstance(r, Rat):
        return r
    ks = [k for k in r.atoms(deep=False) if alg.TABLE.atoms[k].kind == 'fn' and alg.TABLE.atoms[k].name == 'ite' and len(alg.TABLE.atoms[k].args) == 3
          and all(isinstance(x, Rat) for x in alg.TABLE.atoms[k].args)]
    if len(ks) != 1:
        return r
    at = alg.TABLE.atoms[ks[0]]
    if r.equals(Rat.atom(at)):
        return r
    try:
        ra, rb = alg.subst(r, {at.id: at.args[1]}), alg.subst(r, {at.id: at.args[2]})
    except (ZeroDivisionError, RecursionError):
        return r
    return alg.opaque('ite', (at.args[0], ra, rb))


def compare_values(a, b):
    """'equal' | 'different' | 'unknown' for arbitrary evaluator values"""
    # the whole result of an opaque call of fixed arity against a tuple of that length: its items by position (`return f(...)` against
    # `r = f(...); return r[0], r[1], r[2], r[3]`)
    from .symval import _callv_items
    if isinstance(a, CallV) and getattr(a, 'arity', None) and isinstance(b, Tup) and len(b.items) == a.arity:
        a = Tup(_callv_items(a))
    if isinstance(b, CallV) and getattr(b, 'arity', None) and isinstance(a, Tup) and len(a.items) == b.arity:
        b = Tup(_callv_items(b))
    if isinstance(a, CallV):
        a = a.rat
    if isinstance(b, CallV):
        b = b.rat
    if isinstance(a, Rat) and isinstance(b, Rat):
        if _has_abs(a) or _has_abs(b):
            # |u|^2 is u^2: an absolute value that is only squared is no generator of its own
            a, b = alg.even_abs(a), alg.even_abs(b)
        if has_unknown(a) or has_unknown(b):
            r = alg.decide_equal(a, b)
            return 'equal' if r == 'equal' else 'unknown'
        r = alg.decide_equal(a, b)
        if r != 'equal':
            # X + ite(c, A, B) is ite(c, X + A, X + B): a conditional that sits inside a sum on one side and around it on the other
            a2, b2 = _lift_single_ite(a), _lift_single_ite(b)
            if a2 is not a or b2 is not b:
                try:
                    if alg.decide_equal(a2, b2) == 'equal':
                        return 'equal'
                except RecursionError:
                    pass
        return r
    if isinstance(a, Tup) and isinstance(b, Tup):
        if len(a.items) != len(b.items):
            return 'different'
        res = 'equal'
        for x, y in zip(a.items, b.items):
            r = compare_values(x, y)
            if r == 'different':
                return 'different'
            if r == 'unknown':
                res = 'unknown'
        return res
    if isinstance(a, Mat) and isinstance(b, Mat):
        if a.shape != b.shape:
            return 'different'
        fa, fb = flatten(a.data), flatten(b.data)
        res = 'equal'
        for x, y in zip(fa, fb):
            r = compare_values(x, y)
            if r == 'different':
                return 'different'
            if r == 'unknown':
                res = 'unknown'
        return res
    if isinstance(a, IteV) and isinstance(b, IteV):
        rs = [compare_values(a.cond, b.cond), compare_values(a.a, b.a), compare_values(a.b, b.b)]
        if all(r == 'equal' for r in rs):
            return 'equal'
        if rs[0] == 'equal' and 'different' in rs[1:]:
            return 'different'
        return 'unknown'
    if isinstance(a, IteV) != isinstance(b, IteV) and not isinstance(a, Rat) and not isinstance(b, Rat):
        # one side branches on a condition the other does not: equal only if the plain value equals both arms
        it, x = (a, b) if isinstance(a, IteV) else (b, a)
        r1, r2 = compare_values(x, it.a), compare_values(x, it.b)
        if r1 == 'equal' and r2 == 'equal':
            return 'equal'
        ca = _single_atom(it.cond) if isinstance(it.cond, Rat) else None
        none_test = ca is not None and ca.kind == 'fn' and ca.name in ('eq', 'ne') and 'None' in ca.args and \
            any(isinstance(z, Rat) and _single_atom(z) is not None and _single_atom(z).kind == 'sym' for z in ca.args)
        if none_test and 'different' in (r1, r2):
            return 'different'      # an optional input may be absent or present: both arms are reachable
        return 'unknown'
    if type(a) is not type(b):
        if isinstance(a, NoneV) != isinstance(b, NoneV) and (isinstance(a, Rat) or isinstance(b, Rat)):
            r_ = a if isinstance(a, Rat) else b
            sa = _single_atom(r_)
            if sa is not None and sa.kind in ('sym', 'unk'):
                return 'unknown'        # an optional input may itself be None
            if sa is not None and sa.kind == 'fn' and sa.name in ('ite', 'item', 'getitem') or (sa is not None and sa.kind == 'fn' and sa.name.startswith(('call:', 'ext:', 'method:'))):
                return 'unknown'
            return 'different'          # the result of arithmetic is a number, never None
        if isinstance(a, (Rat, IteV)) or isinstance(b, (Rat, IteV)):
            return 'unknown'
        return 'different'
    if isinstance(a, (Str, Bool, NoneV)):
        return 'equal' if valkey(a) == valkey(b) else 'different'
    if isinstance(a, Obj):
        if a.origin and b.origin:
            return 'equal' if a.origin == b.origin else 'different'
        if (a.cls.key if a.cls else None) != (b.cls.key if b.cls else None):
            return 'different'
        res = 'equal'
        for k in set(a.fields) | set(b.fields):
            if k not in a.fields or k not in b.fields:
                return 'different'
            r = compare_values(a.fields[k], b.fields[k])
            if r == 'different':
                return 'different'
            if r == 'unknown':
                res = 'unknown'
        return res
    return 'equal' if valkey(a) == valkey(b) else 'unknown'


def flatten(d):
    if isinstance(d, list):
        out = []
        for x in d:
            out.extend(flatten(x))
        return out
    return [d]


CROSSCHECK = {'on': False, 'done': 0, 'skipped': 0}


def check_equal(rep, rule, key, where, actual, expected, what, undecided_note=''):
    r = compare_values(actual, expected)
    if r == 'equal':
        if CROSSCHECK['on']:
            # thorough tier: an independent look at the symbolic verdict - both forms evaluated numerically at in-domain points
            a_ = actual.rat if isinstance(actual, CallV) else actual
            e_ = expected.rat if isinstance(expected, CallV) else expected
            if isinstance(a_, Rat) and isinstance(e_, Rat):
                try:
                    agree = alg.numeric_agree(a_, e_, _DefaultRanges(), trials=6, rel=1e-6)
                    wit = None if agree else alg.numeric_witness(a_, e_, _DefaultRanges(), trials=6, rel=1e-6)
                except RecursionError:
                    agree, wit = True, None
                if wit is not None:
                    raise AnalysisError('symbolic equality of %s is contradicted numerically at %s: %r vs %r' % (key, wit[0], wit[1], wit[2]))
                CROSSCHECK['done' if agree else 'skipped'] += 1
        rep.holds(rule, key, where, what + ': normal forms identical')
    elif r == 'different':
        a_ = actual.rat if isinstance(actual, CallV) else actual
        e_ = expected.rat if isinstance(expected, CallV) else expected
        agree = False
        if isinstance(a_, Rat) and isinstance(e_, Rat) and _only_branch_generators_differ(a_, e_):
            # generator independence can fail for sqrt / abs (sqrt(c**2) is c where c >= 0): look at the values before calling it different
            try:
                agree = alg.numeric_agree(a_, e_, _DefaultRanges(), trials=6, rel=1e-12)
            except RecursionError:
                agree = False
        if agree:
            # structurally different generators that take the same values on the domain (e.g. sqrt(c**2) and c for c >= 0): not a different function
            note = conditioning_probe(a_, e_)
            if note:
                rep.violated('R-COND', key.replace(rule + '::', 'R-COND::', 1) + '::conditioning', where, what + ': equal to the reference on the domain, but computed through ' + note,
                             expected=show(expected), actual=show(actual))
                return 'different'
            rep.undecided(rule, key, where, what + ': the forms are built from different generators but take the same values at every sampled point of the domain',
                          expected=show(expected, 2, 300), actual=show(actual, 2, 300))
            return 'unknown'
        if isinstance(a_, Rat) and isinstance(e_, Rat):
            rd = rounding_only(a_, e_)
            if rd is not None:
                digits, best = rd
                if best is not None and best[0] <= ROUNDING_NOISE:
                    rep.subtol(rule, key, where, what + ': equal to the reference up to a rounding to %s decimals the reference does not have; at the sampled points of the domain it '
                               'moves the value by at most %.1e (relative %.1e) - below the noise of evaluating the formula in double precision' % (digits, best[1], best[0]))
                    return 'equal'
                rep.violated(rule, key, where, what + ': the value passes through a rounding to %s decimals that the reference formula does not have%s' % (
                    digits, (': it moves the result by up to %.3g (relative %.1e), e.g. at %s: %.15g instead of %.15g' % (
                        best[1], best[0], ', '.join('%s=%.5g' % kv for kv in sorted(best[2].items())[:6]), best[3].real, best[4].real)) if best is not None else ''),
                    expected=show(expected), actual=show(actual))
                return 'different'
        rep.violated(rule, key, where, what + ': the code computes a different function than the reference formula',
                     expected=show(expected), actual=show(actual))
    else:
        a_, e_ = (actual.rat if isinstance(actual, CallV) else actual), (expected.rat if isinstance(expected, CallV) else expected)
        r2, note = case_split(a_, e_)
        if r2 == 'equal':
            rep.holds(rule, key, where, what + ': ' + note)
            return 'equal'
        if r2 == 'different':
            rep.violated(rule, key, where, what + ': a special-case branch of the code departs from the reference formula: ' + note,
                         expected=show(expected), actual=show(actual))
            return 'different'
        if r2 == 'unknown' and isinstance(a_, Rat) and isinstance(e_, Rat) and not has_unknown(a_) and not has_unknown(e_):
            # structurally not recognised equal; exhibit in-domain points where the two forms take macroscopically different values
            try:
                wit = alg.numeric_witness(a_, e_, _DefaultRanges())
            except RecursionError:
                wit = None
            if wit is None:
                # a second look with a finer threshold: a slip in a high-order term of a series moves the value by 1e-10 .. 1e-9 of its size
                # (millimetres in a distance of thousands of kilometres).  Double evaluation of well-conditioned forms is good to 1e-14;
                # the deviation has to show at half of ten sample points
                try:
                    wit = _fine_witness(a_, e_)
                except RecursionError:
                    wit = None
            if wit is not None:
                pt, va, vb = wit
                rep.violated(rule, key, where, what + ': the code and the reference formula take different values, e.g. at %s: %.15g instead of %.15g' % (
                    ', '.join('%s=%.5g' % kv for kv in sorted(pt.items())[:8]), va.real, vb.real), expected=show(expected), actual=show(actual))
                return 'different'
            note = conditioning_probe(a_, e_)
            if note:
                rep.violated('R-COND', key.replace(rule + '::', 'R-COND::', 1) + '::conditioning', where, what + ': equal to the reference on the domain, but computed through ' + note,
                             expected=show(expected), actual=show(actual))
                return 'different'
        why = ''
        if isinstance(actual, Rat) and has_unknown(actual):
            why = ' (code form contains constructs outside the subset: %s)' % '; '.join(unknown_reasons(actual)[:3])
        rep.undecided(rule, key, where, what + ': forms differ but not definitely' + why + undecided_note,
                      expected=show(expected, 2, 300), actual=show(actual, 2, 300))
    return r


def _fine_witness(a, b, rel=1e-11, trials=10, need=5):
    ids = sorted(set(a.atoms(deep=True)) | set(b.atoms(deep=True)))
    syms = [alg.TABLE.atoms[k] for k in ids if alg.TABLE.atoms[k].kind == 'sym' and alg.TABLE.atoms[k].name != 'pi']
    rng = _DefaultRanges()
    if any(s_.name not in rng for s_ in syms):
        return None
    shared = sorted(alg._shared_opaque(a, b))
    hits = 0
    found = None
    for t in range(trials):
        env = {}
        for j, s_ in enumerate(syms):
            lo, hi = rng[s_.name]
            frac = ((t + 1) * 0.6180339887498949 + (j + 1) * 0.7548776662466927) % 1.0
            env[s_.id] = lo + (hi - lo) * frac
        for j, k in enumerate(shared):
            env[k] = 0.3 + 0.6 * (((t + 1) * 0.5545497 + (j + 1) * 0.3819660) % 1.0)
        try:
            va, vb = alg.evalf(a, env), alg.evalf(b, env)
        except (alg.NotEvaluable, ZeroDivisionError, OverflowError, ValueError):
            continue
        scale = max(abs(va), abs(vb), 1e-30)
        if abs(va - vb) > rel * scale:
            hits += 1
            if found is None:
                found = (dict((s_.name, env[s_.id]) for s_ in syms), va, vb)
    return found if hits >= need else None


ROUNDING_NOISE = 1e-14     # relative; a few dozen ulps: what evaluating the formulas in double precision moves anyway


def rounding_only(a, e):
    """when `a` differs from `e` only by rnd(x, d) generators (roundings outside the confirmed rounding sites): (digits, numeric effect)"""
    ds = []

    def f(at):
        if at.kind == 'fn' and at.name in ('rnd', 'rnd?') and at.args and isinstance(at.args[0], Rat):
            if at.name == 'rnd':
                ds.append(at.args[1].as_fraction())
            else:
                ds.append(None)
            return at.args[0]
        return None
    try:
        stripped = alg.map_atoms(a, f)
    except RecursionError:
        return None
    if not ds:
        return None
    if alg.decide_equal(stripped, e) != 'equal':
        return None
    try:
        best = alg.max_rel_diff(a, stripped, _DefaultRanges(), trials=8)
    except RecursionError:
        best = None
    known = sorted(set(int(d) for d in ds if d is not None))
    return ('/'.join(str(d) for d in known) if known and None not in ds else 'n'), best


def leaves(v):
    """free symbol names occurring (deep) in a value"""
    out = set()

    def rec(x):
        if isinstance(x, CallV):
            x = x.rat
        if isinstance(x, Rat):
            for k in x.atoms(deep=True):
                a = alg.TABLE.atoms[k]
                if a.kind == 'sym':
                    out.add(a.name)
                elif a.kind == 'fn':
                    for s in a.args:
                        if isinstance(s, str):
                            out.add('arg:' + s)
        elif isinstance(x, Tup):
            for y in x.items:
                rec(y)
        elif isinstance(x, Mat):
            for y in flatten(x.data):
                rec(y)
        elif isinstance(x, IteV):
            rec(x.cond)
            rec(x.a)
            rec(x.b)
        elif isinstance(x, Obj):
            for y in x.fields.values():
                rec(y)
    rec(v)
    return out


def poly_in(r, symname):
    """coefficients {power: Fraction} of r as a polynomial in the symbol; r is unfolded first. None if not such"""
    r2 = alg.unfold_all(r)
    if r2 is None:
        return None
    a = alg.TABLE.syms.get(symname)
    if a is None:
        f = r2.as_fraction()
        return {0: f} if f is not None else None
    return alg.real_poly_in(r2, a.id)


def to_rat(x):
    if isinstance(x, Rat):
        return x
    return C(Fraction(x))


# ------------------------------------------------------------------------------------------------ special-case branches
def _cond_atoms(r, out, seen):
    """equality tests (eq / ne atoms against a constant) occurring at any depth"""
    if not isinstance(r, Rat):
        return
    for k in r.atoms(deep=False):
        if k in seen:
            continue
        seen.add(k)
        a = alg.TABLE.atoms[k]
        if a.kind != 'fn':
            continue
        if a.name in ('eq', 'ne') and len(a.args) == 2 and all(isinstance(x, Rat) for x in a.args):
            if a.args[0].as_fraction() is not None or a.args[1].as_fraction() is not None:
                out.append(a)
        for x in a.args:
            _cond_atoms(x, out, seen)


def fold_conditions(r):
    """evaluate comparison atoms whose arguments became constants, then the and/or/not/ite atoms that depend on them"""
    def f(a):
        if a.kind != 'fn':
            return None
        args = a.args
        if a.name in ('lt', 'le', 'eq', 'ne', 'gt', 'ge') and len(args) == 2 and all(isinstance(x, Rat) for x in args):
            d = (args[0] - args[1]).as_fraction()
            if d is not None:
                return C(1 if {'lt': d < 0, 'le': d <= 0, 'eq': d == 0, 'ne': d != 0, 'gt': d > 0, 'ge': d >= 0}[a.name] else 0)
            return None
        if a.name in ('and', 'or') and all(isinstance(x, Rat) for x in args):
            vals = [x.as_fraction() for x in args]
            if a.name == 'or' and any(v is not None and v != 0 for v in vals):
                return C(1)
            if a.name == 'and' and any(v is not None and v == 0 for v in vals):
                return C(0)
            rest = [x for x, v in zip(args, vals) if v is None]
            if not rest:
                return C(1 if a.name == 'and' else 0)
            if len(rest) == 1:
                return rest[0]
            return None
        if a.name == 'not' and isinstance(args[0], Rat):
            v = args[0].as_fraction()
            if v is not None:
                return C(0 if v else 1)
        if a.name == 'truthy' and isinstance(args[0], Rat):
            v = args[0].as_fraction()
            if v is not None:
                return C(1 if v else 0)
        if a.name == 'ite' and isinstance(args[0], Rat):
            v = args[0].as_fraction()
            if v is not None:
                return args[1] if v else args[2]
        return None
    prev = None
    cur = r
    for _ in range(8):
        cur = alg.map_atoms(cur, f)
        if prev is not None and cur.equals(prev):
            break
        prev = cur
    return cur


def solve_special(atom):
    """for eq/ne(E, c): an input symbol s and value v with E[s := v] == c; None when no single-symbol substitution does it"""
    E, c = atom.args
    if E.as_fraction() is not None:
        E, c = c, E
    cf = c.as_fraction()
    if cf is None:
        return None
    for k in sorted(E.atoms(deep=True)):
        a = alg.TABLE.atoms[k]
        if a.kind != 'sym' or '@' in a.name:
            continue
        for v in (cf, F(0)):
            try:
                val = fold_conditions(alg.subst(E, {k: C(v)}))
                full = alg.unfold_all(val) if alg.def_atoms(val) else val
            except ZeroDivisionError:
                continue
            if full is not None and full.as_fraction() == cf:
                return a, v
    return None


def case_split(actual, expected):
    """decide actual == expected when the code (not the reference) branches on equality tests of its inputs:
    generic case (all such tests false) must agree, and each special input must agree as well.
    -> ('equal' | 'different' | 'unknown', explanation)"""
    if not (isinstance(actual, Rat) and isinstance(expected, Rat)):
        return 'unknown', ''
    ca, cb = [], []
    _cond_atoms(actual, ca, set())
    _cond_atoms(expected, cb, set())
    idb = set(a.id for a in cb)
    special = [a for a in ca if a.id not in idb]
    if not special or len(special) > 4:
        return 'unknown', ''
    # generic case
    gen = alg.subst(actual, dict((a.id, C(0 if a.name == 'eq' else 1)) for a in special))
    gen = fold_conditions(gen)
    r = alg.decide_equal(gen, expected)
    # (a special input at which the code departs from the reference is a difference whatever the generic case turns out to be; the
    # generic case is needed only to conclude EQUAL)
    generic_equal = (r == 'equal')
    notes = []
    todo = []
    for a in special:
        sol = solve_special(a)
        if sol is None:
            if not generic_equal:
                return 'unknown', ''
            return 'unknown', 'special case %s not solvable for one input' % alg.fmt(Rat.atom(a), 3)
        todo.append((a, sol[0], sol[1]))
        # a test of the MAGNITUDE of an input (abs(lat) == 90) singles out two values: the mirror image is a special input too
        if any(alg.TABLE.atoms[k_].kind == 'fn' and alg.TABLE.atoms[k_].name == 'abs' for x_ in a.args if isinstance(x_, Rat) for k_ in x_.atoms(deep=True)) and sol[1] != 0:
            todo.append((a, sol[0], -sol[1]))
    open_ = []
    for a, s, v in todo:
        try:
            la = fold_conditions(alg.subst(actual, {s.id: C(v)}))
            lb = fold_conditions(alg.subst(expected, {s.id: C(v)}))
        except ZeroDivisionError:
            # the reference formula has a removable singularity there (tan at a pole): its LIMIT from inside the domain is what the special
            # branch has to return.  Both forms are evaluated a hair inside (v (1 - 1e-9)) at several values of the other inputs
            lim = _limit_disagreement(actual, expected, s, v)
            if lim is not None:
                return 'different', 'for %s = %s (the code tests %s) the code returns %.9g where the formula tends to %.9g as %s approaches %s' % (
                    s.name, v, alg.fmt(Rat.atom(a), 3)[:80], lim[0], lim[1], s.name, v)
            open_.append('reference not defined at %s = %s' % (s.name, v))
            continue
        r2 = alg.decide_equal(la, lb)
        if r2 == 'different':
            return 'different', 'for %s = %s (the code tests %s) the code returns %s where the formula gives %s' % (
                s.name, v, alg.fmt(Rat.atom(a), 3), alg.fmt(la, 3)[:160], alg.fmt(lb, 3)[:160])
        if r2 != 'equal':
            wit = alg.numeric_witness(la, lb, _DefaultRanges())
            if wit is not None:
                pt, va, vb = wit
                return 'different', 'for %s = %s (the code tests %s) the code and the formula differ, e.g. at %s: %.9g instead of %.9g' % (
                    s.name, v, alg.fmt(Rat.atom(a), 2)[:80], ', '.join('%s=%.4g' % kv for kv in sorted(pt.items())[:6]), va.real, vb.real)
            if not generic_equal:
                continue
            return 'unknown', 'special case %s = %s not decided' % (s.name, v)
        notes.append('%s = %s' % (s.name, v))
    if not generic_equal:
        return 'unknown', ''
    if open_:
        return 'unknown', open_[0]
    return 'equal', 'generic case and special inputs %s agree' % ', '.join(notes)


def _limit_disagreement(actual, expected, s, v, trials=4):
    """(value of the code AT s = v, extrapolated value of the formula) when they differ clearly at every sample of the other inputs.  The
    formula is evaluated at two offsets INSIDE the domain that are far enough from the singular point for double evaluation to be
    stable (1 and 2 per cent of v) and extrapolated linearly; a difference counts only when it is ten times the change between the two
    offsets (a continuous function cannot jump by that much over the remaining one per cent)."""
    ids = sorted(set(actual.atoms(deep=True)) | set(expected.atoms(deep=True)))
    syms = [alg.TABLE.atoms[k] for k in ids if alg.TABLE.atoms[k].kind == 'sym' and alg.TABLE.atoms[k].name != 'pi' and alg.TABLE.atoms[k].id != s.id]
    rng = _DefaultRanges()
    shared = sorted(alg._shared_opaque(actual, expected))
    res = None
    n = 0
    if v == 0:
        return None
    for t in range(trials):
        env = {}
        for j, sy in enumerate(syms):
            lo, hi = rng[sy.name]
            env[sy.id] = lo + (hi - lo) * (((t + 1) * 0.6180339887498949 + (j + 1) * 0.7548776662466927) % 1.0)
        for j, k in enumerate(shared):
            env[k] = 0.3 + 0.6 * (((t + 1) * 0.5545497 + (j + 1) * 0.3819660) % 1.0)
        try:
            env[s.id] = float(v)
            va = alg.evalf(actual, env)
            env[s.id] = float(v) * 0.98
            v1 = alg.evalf(expected, env)
            env[s.id] = float(v) * 0.99
            v2 = alg.evalf(expected, env)
        except (alg.NotEvaluable, ZeroDivisionError, OverflowError, ValueError):
            continue
        n += 1
        lim = v2 + (v2 - v1)
        if abs(va - lim) <= 10 * abs(v2 - v1) + 1e-6 * max(abs(va), abs(lim), 1e-12):
            return None
        res = res or (va.real, lim.real)
    return res if n >= 2 else None


RANGE_OVERRIDE = {}


def set_ranges(d):
    """ranges of the property's quantifier for named symbols (witness points and magnitudes of rounding effects are taken there)"""
    RANGE_OVERRIDE.clear()
    RANGE_OVERRIDE.update(d)


class _DefaultRanges(dict):
    """plausible in-domain ranges by symbol name (witness points only; equality is never concluded from them)"""

    def __contains__(self, k):
        return True

    def __getitem__(self, k):
        if k in RANGE_OVERRIDE:
            return RANGE_OVERRIDE[k]
        n = k.lower()
        if 'inversef' in n:
            return (150.0, 400.0)
        if 'semimaj' in n or 'semimin' in n:
            return (6.3e6, 6.4e6)
        if n.startswith('lat') or '.lat' in n:
            return (-70.0, 70.0)
        if n.startswith('lon') or '.lon' in n:
            return (-170.0, 170.0)
        if 'sigma' in n:
            # angular distance on the auxiliary sphere (a converged loop variable): up to just short of the antipode, so that points beyond a
            # quarter turn (cos sigma < 0) are among the samples
            return (0.05, 3.1)
        if 'east' in n:
            return (2.0e5, 8.0e5)
        if 'north' in n:
            return (1.0e6, 9.0e6)
        return (0.3, 0.9)


alg.NUMERIC_RANGES[0] = _DefaultRanges()


# ------------------------------------------------------------------------------------------------ conditioning
EDGE_EPS = 1e-7


def edge_points(names):
    """deterministic sample points at the edges of the domain: each symbol in turn near the end of its range (others interior), and
    symbols of one family (lat1/lat2, lon1/lon2, lon/cm) nearly coincident"""
    rng = _DefaultRanges()
    interior = {}
    for j, n in enumerate(sorted(names)):
        lo, hi = rng[n]
        interior[n] = lo + (hi - lo) * ((0.6180339887498949 + (j + 1) * 0.7548776662466927) % 1.0)

    def ends(n):
        low = n.lower()
        if low.startswith('lat') or '.lat' in low:
            return [90.0 - EDGE_EPS, -90.0 + EDGE_EPS, EDGE_EPS]
        if low.startswith('lon') or '.lon' in low or low == 'cm':
            return [EDGE_EPS, 180.0 - EDGE_EPS]
        if low.startswith('az'):
            return [EDGE_EPS, 90.0 + EDGE_EPS, 180.0 - EDGE_EPS, 270.0 + EDGE_EPS]
        if 'dist' in low:
            return [1e-3, 1e-1]
        return []
    pts = []
    for n in sorted(names):
        for v in ends(n):
            p = dict(interior)
            p[n] = v
            pts.append(p)
    fams = {}
    for n in names:
        stem = n.rstrip('0123456789')
        fams.setdefault(stem, []).append(n)
    for stem, ms in fams.items():
        if len(ms) >= 2:
            ms = sorted(ms)
            p = dict(interior)
            for m_ in ms[1:]:
                p[m_] = p[ms[0]] + 1e-8
            pts.append(p)
            # both families coincident (two nearly identical points)
            q = dict(p)
            for stem2, ms2 in fams.items():
                if stem2 != stem and len(ms2) >= 2:
                    ms2 = sorted(ms2)
                    for m_ in ms2[1:]:
                        q[m_] = q[ms2[0]] + 1e-8
            pts.append(q)
            for v in ends(ms[0]):
                r_ = dict(interior)
                for m_ in ms:
                    r_[m_] = v
                pts.append(r_)
    if 'lon' in names and 'cm' in names:
        p = dict(interior)
        p['lon'] = p['cm'] + 1e-6
        pts.append(p)
    return pts


def _one_minus_square(node, func):
    """the argument of the call is (after resolving local names) of the shape 1 - X**2 / 1 - X*X"""
    import ast as _ast
    e = node.args[0] if getattr(node, 'args', None) else None
    hops = 0
    while isinstance(e, _ast.Name) and func is not None and hops < 4:
        hops += 1
        defs = [st.value for st in _ast.walk(func.node) if isinstance(st, _ast.Assign) and len(st.targets) == 1 and isinstance(st.targets[0], _ast.Name)
                and st.targets[0].id == e.id and st.lineno < node.lineno]
        if not defs:
            break
        e = defs[-1]
    if isinstance(e, _ast.BinOp) and isinstance(e.op, _ast.Sub) and isinstance(e.left, _ast.Constant) and e.left.value in (1, 1.0):
        r = e.right
        if isinstance(r, _ast.BinOp) and isinstance(r.op, _ast.Pow) and isinstance(r.right, _ast.Constant) and r.right.value == 2:
            return True
        if isinstance(r, _ast.BinOp) and isinstance(r.op, _ast.Mult) and _ast.dump(r.left) == _ast.dump(r.right):
            return True
    return False


def full_range(n):
    low = n.lower()
    if 'inversef' in low:
        return (150.0, 400.0)
    if 'semimaj' in low or 'semimin' in low:
        return (6.3e6, 6.4e6)
    if low.startswith('lat') or '.lat' in low:
        return (-90.0, 90.0)
    if low.startswith('lon') or '.lon' in low or low == 'cm':
        return (-180.0, 180.0)
    if low.startswith('az'):
        return (0.0, 360.0)
    if 'dist' in low:
        return (1e-3, 2.0e7)
    if '@l' in low:
        return (0.0, 3.1)
    return _DefaultRanges()[n]


def singular_point(u, kind, names, starts, shared):
    """search the domain box for a point where the argument u reaches the singular value of the inverse function (|u| -> 1 for acos / asin,
    u -> 0 for the square root): multi-start coordinate search on the numerically evaluated form; -> (point, value) or None"""
    names = sorted(names)
    ids = dict((n, alg.TABLE.syms[n].id) for n in names if n in alg.TABLE.syms)

    def value(p):
        env = dict((ids[n], v) for n, v in p.items() if n in ids)
        for j, kk in enumerate(shared):
            env[kk] = 0.3 + 0.6 * (((j + 1) * 0.3819660) % 1.0)
        try:
            return alg.evalf(u, env).real
        except Exception:
            return None

    def badness(v):
        if v is None:
            return None
        return abs(1.0 - abs(v)) if kind in ('acos', 'asin') else abs(v)
    used = [n for n in names if n in ids and ids[n] in u.atoms(deep=True)]
    if not used or len(used) > 8:
        return None
    best = None
    evals = 0
    for p0 in starts[:10]:
        p = dict(p0)
        b = badness(value(p))
        if b is None:
            continue
        for rnd in range(3):
            for n in used:
                lo, hi = full_range(n)
                span = (hi - lo)
                centre = p[n]
                for level in range(4):
                    cands = [max(lo, min(hi, centre + span * (k_ - 6) / 12.0)) for k_ in range(13)]
                    if level == 0:
                        # the special positions of the box: zero, the ends, and the value of a sibling input (lat1 = lat2, ...)
                        cands += [c_ for c_ in (0.0, lo, hi) if lo <= c_ <= hi]
                        stem = n.rstrip('0123456789')
                        cands += [p[m_] for m_ in used if m_ != n and m_.rstrip('0123456789') == stem and lo <= p[m_] <= hi]
                    for c in cands:
                        q = dict(p)
                        q[n] = c
                        evals += 1
                        bq = badness(value(q))
                        if bq is not None and bq < b:
                            b, p = bq, q
                    centre = p[n]
                    span *= 0.15
                if evals > 6000:
                    break
            if b < 1e-9 or evals > 6000:
                break
        if best is None or b < best[0]:
            best = (b, p)
        if b < 1e-9 or evals > 6000:
            break
    if best is not None and best[0] < 1e-9:
        return best[1], value(best[1])
    return None


def _only_branch_generators_differ(a, b):
    """the generators that occur (at any depth, definitions looked through) in exactly one of the two forms are all square roots / absolute
    values - the generators for which 'different atoms' does not imply 'different functions on the domain'"""
    da = set(k for k in a.atoms(deep=True) if not (alg.TABLE.atoms[k].kind == 'fn' and alg.TABLE.atoms[k].name == 'def'))
    db = set(k for k in b.atoms(deep=True) if not (alg.TABLE.atoms[k].kind == 'fn' and alg.TABLE.atoms[k].name == 'def'))
    one = da ^ db
    if not one:
        return False
    names = set(alg.TABLE.atoms[k].name if alg.TABLE.atoms[k].kind == 'fn' else '<' + alg.TABLE.atoms[k].kind + '>' for k in one)
    return names <= {'sqrt', 'abs'}


def conditioning_probe(actual, expected):
    """when the code's form agrees with the reference numerically but is not the same computation: does it go through an inverse cosine /
    sine, or a square root of 1 - X**2, that the reference does not use and whose argument reaches its singular point inside the domain?
    -> description or None"""
    from .symval import MATH_CALLS
    if not (isinstance(actual, Rat) and isinstance(expected, Rat)):
        return None
    kinds = ('sqrt', 'acos', 'asin')

    def special(r):
        return set(k for k in r.atoms(deep=True) if alg.TABLE.atoms[k].kind == 'fn' and alg.TABLE.atoms[k].name in kinds)
    only = special(actual) - special(expected)
    if not only:
        return None
    names = set()
    for k in set(actual.atoms(deep=True)) | set(expected.atoms(deep=True)):
        a = alg.TABLE.atoms[k]
        if a.kind == 'sym' and a.name != 'pi':
            names.add(a.name)
    pts = edge_points(names)
    for k in sorted(only):
        at = alg.TABLE.atoms[k]
        u = at.args[0]
        calls = [c for c in MATH_CALLS if isinstance(c[4], Rat) and k in c[4].atoms(deep=False)]
        if at.name == 'sqrt':
            if not any(_one_minus_square(c[2], c[0]) for c in calls):
                continue
        best = singular_point(u, at.name, names, pts, sorted(alg._shared_opaque(actual, expected)))
        for p, val in ([best] if best is not None else []):
            where_ = ''
            if calls and calls[0][0] is not None and hasattr(calls[0][2], 'lineno'):
                where_ = ' (%s:%d)' % (calls[0][0].module.relpath, calls[0][2].lineno)
            pt = ', '.join('%s=%.9g' % kv for kv in sorted(p.items())[:6])
            if at.name in ('acos', 'asin') and abs(val) > 1 - 1e-9:
                return ('%s(...)%s of a quantity that reaches %.12g at %s: the inverse %s loses half of the significant digits there (error ~ sqrt(2e-16) of its result), '
                        'where the reference formula does not use it' % (at.name, where_, val, pt, 'cosine' if at.name == 'acos' else 'sine'))
            if at.name == 'sqrt' and abs(val) < 1e-9:
                return ('sqrt(1 - X**2)%s with X**2 within %.3g of 1 at %s: the subtraction cancels all but a few digits of X, where the reference formula computes the '
                        'quantity directly' % (where_, abs(val), pt))
    return None


# ------------------------------------------------------------------------------------------------ finite string domains
STRING_DOMAINS = []      # [(Rat generator, [strings it can be])]: e.g. item(call:geo2grid(...), 0) in {'North', 'South'}


def string_results(repo, modname, fname, index, opaque=()):
    """the string constants element `index` of the function's result can be (leaves of its conditional value); None when not all leaves are strings"""
    f = repo.func(modname, fname)
    ev = Evaluator(repo, opaque=set(opaque))
    try:
        val = ev.call_function(f, dict((p.name, Rat.sym('sr.' + p.name)) for p in f.params if p.default is None))
    except Exception:
        return None
    out = set()

    def leaves_(v):
        if isinstance(v, IteV):
            return leaves_(v.a) and leaves_(v.b)
        if isinstance(v, Str):
            out.add(v.s)
            return True
        return False

    def pick(v):
        if isinstance(v, IteV):
            a, b = pick(v.a), pick(v.b)
            if a is None or b is None:
                return None
            return IteV(v.cond, a, b)
        if isinstance(v, Tup) and len(v.items) > index:
            return v.items[index]
        return None
    e = pick(val)
    if e is None or not leaves_(e):
        return None
    return sorted(out)


def truth_under(v, assign):
    """truth value of a condition when the generators in `assign` (list of (Rat, string)) take the given strings; None when not decided"""
    import re
    if isinstance(v, Bool):
        return v.b
    if isinstance(v, IteV):
        c = truth_under(v.cond, assign)
        if c is None:
            return None
        return truth_under(v.a if c else v.b, assign)
    if not isinstance(v, Rat):
        return None
    fr = v.as_fraction()
    if fr is not None:
        return fr != 0
    a = _single_atom(v)
    if a is None or a.kind != 'fn':
        return None
    if a.name in ('eq', 'ne') and len(a.args) == 2:
        for x, y in ((a.args[0], a.args[1]), (a.args[1], a.args[0])):
            if isinstance(x, Rat) and isinstance(y, str):
                m = re.match(r'^str<(.*)>$', y, re.S)
                if m:
                    for g, sval in assign:
                        if alg.decide_equal(x, g) == 'equal':
                            return (sval == m.group(1)) == (a.name == 'eq')
                        # a string method of the generator: lower / upper / strip / capitalize / title
                        xa = _single_atom(x)
                        if xa is not None and xa.kind == 'fn' and xa.name.startswith('method:') and xa.args and isinstance(xa.args[0], Rat) \
                                and len(xa.args) == 1 and alg.decide_equal(xa.args[0], g) == 'equal' and xa.name[7:] in ('lower', 'upper', 'strip', 'capitalize', 'title', 'casefold'):
                            return (getattr(sval, xa.name[7:])() == m.group(1)) == (a.name == 'eq')
        return None
    if a.name == 'not' and a.args and isinstance(a.args[0], Rat):
        t = truth_under(a.args[0], assign)
        return None if t is None else not t
    if a.name in ('and', 'or'):
        ts = [truth_under(x, assign) if isinstance(x, Rat) else None for x in a.args]
        if a.name == 'and':
            return False if any(t is False for t in ts) else (None if any(t is None for t in ts) else True)
        return True if any(t is True for t in ts) else (None if any(t is None for t in ts) else False)
    if a.name == 'truthy' and a.args and isinstance(a.args[0], Rat):
        return truth_under(a.args[0], assign)
    if a.name == 'ite' and len(a.args) == 3 and all(isinstance(x, Rat) for x in a.args):
        c = truth_under(a.args[0], assign)
        if c is None:
            return None
        return truth_under(a.args[1] if c else a.args[2], assign)
    return None


def decide_conditions_by_strings(a, b, gen, strings):
    """two truth-valued forms that test the string-valued generator `gen`: compared for every string it can be.
    -> ('equal', None) | ('different', string) | ('unknown', None)"""
    for sval in strings:
        ta, tb = truth_under(a, [(gen, sval)]), truth_under(b, [(gen, sval)])
        if ta is None or tb is None:
            return 'unknown', None
        if ta != tb:
            return 'different', sval
    return 'equal', None


def split_ite(v, limit=16):
    """[(conditions [(cond Rat, truth)], form)]: the arms of a conditional value - IteV nodes and ite generators of a Rat (any depth of its own
    generators' top level), expanded one generator at a time; None when there are more than `limit` arms"""
    out = [([], v)]
    for _ in range(32):
        nxt = []
        changed = False
        for conds, f_ in out:
            if isinstance(f_, IteV):
                nxt.append((conds + [(f_.cond, True)], f_.a))
                nxt.append((conds + [(f_.cond, False)], f_.b))
                changed = True
                continue
            hit = None
            if isinstance(f_, Rat):
                for k in sorted(f_.atoms(deep=False)):
                    at = alg.TABLE.atoms[k]
                    if at.kind == 'fn' and at.name == 'ite' and len(at.args) == 3 and all(isinstance(x, Rat) for x in at.args):
                        hit = at
                        break
            if hit is None:
                nxt.append((conds, f_))
                continue
            changed = True
            nxt.append((conds + [(hit.args[0], True)], alg.subst(f_, {hit.id: hit.args[1]})))
            nxt.append((conds + [(hit.args[0], False)], alg.subst(f_, {hit.id: hit.args[2]})))
        out = nxt
        if len(out) > limit:
            return None
        if not changed:
            break
    return out


def strip_floor_clamps(v):
    """max(X, 0) / max(0, X) -> X at any depth: a clamp at zero of a quantity that is non-negative in exact arithmetic (an eigenvalue of a
    positive semi-definite matrix) is the identity of the exact model; it exists for the sake of rounding.  The caller states why X >= 0."""
    if isinstance(v, Tup):
        return Tup([strip_floor_clamps(x) for x in v.items], v.is_list)
    if isinstance(v, IteV):
        return IteV(v.cond, strip_floor_clamps(v.a), strip_floor_clamps(v.b))
    if not isinstance(v, Rat):
        return v

    def f(at):
        if at.kind == 'fn' and at.name == 'max' and len(at.args) == 2 and all(isinstance(x, Rat) for x in at.args):
            a, b = at.args
            if b.is_zero():
                return a
            if a.is_zero():
                return b
        return None
    try:
        return alg.map_atoms(v, f)
    except RecursionError:
        return v


def _whole_turns(d, turn):
    if not d.is_const():
        return False
    cv = d.const_value()
    if cv is None or cv.im:
        return False
    return (cv.re / turn).denominator == 1


def _affine_single_symbol(d):
    """d = c0 + c1 * s for ONE input symbol s with real rational constants -> (symbol name, c0, c1), else None"""
    if not isinstance(d, Rat) or not d.den.is_const():
        return None
    dc = d.den.const_value()
    if not dc or dc.im:
        return None
    name, c0, c1 = None, 0, 0
    for (mono, ex), c in d.num.t.items():
        if ex or c.im:
            return None
        if not mono:
            c0 = c.re / dc.re
        elif len(mono) == 1 and mono[0][1] == 1 and alg.TABLE.atoms[mono[0][0]].kind == 'sym':
            nm = alg.TABLE.atoms[mono[0][0]].name
            if name is not None and nm != name:
                return None
            name, c1 = nm, c.re / dc.re
        else:
            return None
    return (name, c0, c1) if name is not None else None


def _cond_over_domain(cond, domains):
    """a test that compares an affine image of one input symbol with a constant, looked at over the CLOSED domain of that symbol:
    True (holds everywhere), False (holds nowhere) or None (holds somewhere, or not of that shape)"""
    ca = None
    if isinstance(cond, Rat):
        ats = cond.atoms(deep=False)
        if len(ats) == 1 and cond.equals(Rat.atom(alg.TABLE.atoms[next(iter(ats))])):
            ca = alg.TABLE.atoms[next(iter(ats))]
    if ca is None or ca.kind != 'fn':
        return None
    if ca.name == 'not' and len(ca.args) == 1:
        r = _cond_over_domain(ca.args[0], domains)
        return None if r is None else (not r)
    if ca.name not in ('lt', 'le', 'gt', 'ge', 'eq', 'ne') or len(ca.args) != 2 or not all(isinstance(x, Rat) for x in ca.args):
        return None
    aff = _affine_single_symbol(ca.args[0] - ca.args[1])
    if aff is None or aff[0] not in domains:
        return None
    nm, c0, c1 = aff
    lo, hi = domains[nm]
    ends = sorted((c0 + c1 * lo, c0 + c1 * hi))
    mn, mx = ends
    table = {'lt': (mx < 0, mn >= 0), 'le': (mx <= 0, mn > 0), 'gt': (mn > 0, mx <= 0), 'ge': (mn >= 0, mx < 0),
             'eq': (mn == 0 == mx, mn > 0 or mx < 0), 'ne': (mn > 0 or mx < 0, mn == 0 == mx)}
    always, never = table[ca.name]
    return True if always else (False if never else None)


def prune_infeasible(v, domains):
    """ite(c, A, B) -> B where the test c holds at NO point of the stated domain of the input it looks at (and -> A where it holds at every
    point): `if lon1 > 180: lon1 -= 360` is the identity on longitudes in [-180, 180].  domains: symbol name -> (low, high), closed."""
    if isinstance(v, Tup):
        return Tup([prune_infeasible(x, domains) for x in v.items], v.is_list)
    if isinstance(v, IteV):
        r = _cond_over_domain(v.cond, domains)
        if r is True:
            return prune_infeasible(v.a, domains)
        if r is False:
            return prune_infeasible(v.b, domains)
        return IteV(v.cond, prune_infeasible(v.a, domains), prune_infeasible(v.b, domains))
    if not isinstance(v, Rat):
        return v

    def f(at):
        if at.kind == 'fn' and at.name == 'ite' and len(at.args) == 3:
            r = _cond_over_domain(at.args[0], domains)
            if r is True and isinstance(at.args[1], Rat):
                return prune_infeasible(at.args[1], domains)
            if r is False and isinstance(at.args[2], Rat):
                return prune_infeasible(at.args[2], domains)
        return None
    try:
        return alg.map_atoms(v, f)
    except RecursionError:
        return v


def strip_turn_folds(v, turn=360):
    """ite(c, X + k*turn, X) -> X at any depth (k an integer): a fold of an angle into its principal range chooses between representatives
    of the same angle.  What is compared afterwards is the angle modulo a full turn; WHICH representative is returned is a range obligation
    decided separately (common.longitude_range_rule)."""
    from fractions import Fraction
    if isinstance(v, Tup):
        return Tup([strip_turn_folds(x, turn) for x in v.items], v.is_list)
    if isinstance(v, IteV):
        a, b = strip_turn_folds(v.a, turn), strip_turn_folds(v.b, turn)
        if isinstance(a, Rat) and isinstance(b, Rat):
            d = a - b
            if _whole_turns(d, turn):
                return b
        return IteV(v.cond, a, b)
    if not isinstance(v, Rat):
        return v

    def f(at):
        if at.kind == 'fn' and at.name == 'ite' and len(at.args) == 3 and isinstance(at.args[1], Rat) and isinstance(at.args[2], Rat):
            a, b = strip_turn_folds(at.args[1], turn), strip_turn_folds(at.args[2], turn)
            if _whole_turns(a - b, turn):
                return b
        if at.kind == 'fn' and at.name in ('mod', 'fmod') and len(at.args) == 2 and isinstance(at.args[0], Rat) and isinstance(at.args[1], Rat):
            # u % 360 is u minus a whole number of turns
            m_ = at.args[1]
            if m_.is_const() and m_.const_value() is not None and not m_.const_value().im and m_.const_value().re == turn:
                return strip_turn_folds(at.args[0], turn)
        return None
    try:
        return alg.map_atoms(v, f)
    except RecursionError:
        return v
