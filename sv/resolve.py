"""Call resolution and light receiver-type inference on top of model.Repo."""
import ast
from .model import Func, Class, Module, Ext, ModuleConst, bind_call, local_names, calls_in, dotted


class Resolver(object):
    def __init__(self, repo):
        self.repo = repo
        self._ret_cache = {}
        self._locals_cache = {}
        self._methods_by_name = {}
        for m in repo.modules.values():
            for c in m.classes.values():
                for name, f in c.methods.items():
                    self._methods_by_name.setdefault(name, []).append(f)

    def locals_of(self, func):
        k = id(func)
        if k not in self._locals_cache:
            self._locals_cache[k] = local_names(func)
        return self._locals_cache[k]

    # ---------------------------------------------------------------- types
    def return_class(self, func, _depth=0):
        """Class returned by func if every return is a constructor call (or a call returning) of one class."""
        if not isinstance(func, Func):
            return None
        k = id(func)
        if k in self._ret_cache:
            return self._ret_cache[k]
        self._ret_cache[k] = None
        if _depth > 6:
            return None
        classes = set()
        ok = True
        for n in ast.walk(func.node):
            if isinstance(n, ast.Return) and n.value is not None and self._owner(func, n):
                c = self.expr_class(func, n.value, _depth + 1)
                if c is None:
                    ok = False
                else:
                    classes.add(c)
        res = None
        if ok and len(classes) == 1:
            res = list(classes)[0]
        self._ret_cache[k] = res
        return res

    def _owner(self, func, node):
        # cheap: accept returns of nested defs too only if no nested defs
        return True if not func.nested else self._in_own_body(func, node)

    def _in_own_body(self, func, node):
        for g in func.nested.values():
            for n in ast.walk(g.node):
                if n is node:
                    return False
        return True

    def expr_class(self, func, expr, _depth=0):
        """repository Class of the value of expr, if evident."""
        if isinstance(expr, ast.IfExp):
            a = self.expr_class(func, expr.body, _depth)
            b = self.expr_class(func, expr.orelse, _depth)
            return a if a is b else None
        if isinstance(expr, ast.UnaryOp) and isinstance(expr.op, ast.USub):
            c = self.expr_class(func, expr.operand, _depth)
            if c is not None and '__neg__' in c.methods:
                return self.return_class(c.methods['__neg__'], _depth + 1) or c
            return None
        if isinstance(expr, ast.Call):
            tgt = self.callee(func, expr, _depth)
            if isinstance(tgt, Class):
                return tgt
            if isinstance(tgt, Func):
                return self.return_class(tgt, _depth + 1)
            return None
        if isinstance(expr, ast.Name):
            if func is not None and expr.id == 'self' and isinstance(func, Func) and func.cls is not None:
                return func.cls
            if func is not None and isinstance(func, Func) and expr.id in self.locals_of(func):
                # single assignment from a constructor?
                vals = [n.value for n in ast.walk(func.node) if isinstance(n, ast.Assign)
                        and any(isinstance(t, ast.Name) and t.id == expr.id for t in n.targets)]
                cs = set(self.expr_class(func, v, _depth + 1) for v in vals) if vals and _depth < 4 else {None}
                if len(cs) == 1:
                    return list(cs)[0]
                return None
            g = self.repo.resolve_expr(func, expr) if func is not None else None
            if isinstance(g, ModuleConst):
                return self._const_class(g, _depth)
        return None

    def _const_class(self, const, _depth=0):
        v = const.value
        if isinstance(v, ast.Call):
            tgt = self.repo.resolve_expr(const.module, v.func)
            if isinstance(tgt, Class):
                return tgt
            if isinstance(tgt, Func):
                return self.return_class(tgt, _depth + 1)
        if isinstance(v, ast.UnaryOp) and isinstance(v.operand, ast.Name):
            g = self.repo.resolve_global(const.module, v.operand.id)
            if isinstance(g, ModuleConst) and _depth < 8:
                return self._const_class(g, _depth + 1)
        if isinstance(v, ast.Name):
            g = self.repo.resolve_global(const.module, v.id)
            if isinstance(g, ModuleConst) and _depth < 8:
                return self._const_class(g, _depth + 1)
        return None

    def const_class(self, const):
        return self._const_class(const)

    # ---------------------------------------------------------------- calls
    def callee(self, func, call, _depth=0):
        """Func | Class | Ext | list[Func] (ambiguous method) | None"""
        f = call.func
        locs = self.locals_of(func) if isinstance(func, Func) else ()
        if isinstance(f, ast.Name):
            if isinstance(func, Func):
                # nested function of this or an enclosing function
                p = func
                while p is not None:
                    if f.id in p.nested:
                        return p.nested[f.id]
                    p = p.parent
            if f.id in locs:
                return None
            scope = func if isinstance(func, Func) else func
            return self.repo.resolve_expr(scope, f)
        if isinstance(f, ast.Attribute):
            g = self.repo.resolve_expr(func, f, locs)
            if g is not None:
                return g
            # method call on a receiver
            rc = self.expr_class(func, f.value, _depth + 1) if _depth < 6 else None
            if rc is not None:
                m = rc.methods.get(f.attr)
                if m is not None:
                    return m
                return None
            cands = self._methods_by_name.get(f.attr, [])
            if len(cands) == 1:
                return cands[0]
            if cands:
                return list(cands)
            return None
        return None

    def bind(self, func, call):
        """(callee, Binding) for a call to a repository function/class, else (callee, None)"""
        tgt = self.callee(func, call)
        target_func = None
        if isinstance(tgt, Func):
            target_func = tgt
        elif isinstance(tgt, Class):
            target_func = tgt.init()
        if target_func is None:
            return tgt, None
        b = bind_call(target_func.call_params(), call)
        b.callee = target_func
        return tgt, b


def names_in(expr):
    return set(n.id for n in ast.walk(expr) if isinstance(n, ast.Name))


def self_attrs_in(expr):
    return set(n.attr for n in ast.walk(expr)
               if isinstance(n, ast.Attribute) and isinstance(n.value, ast.Name) and n.value.id == 'self')
